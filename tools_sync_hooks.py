#!/usr/bin/env python3
"""Adds the `verif:` commits of /repo that MANIFEST.hooks.source_commits does not list yet."""
import json, subprocess, os
root = os.path.dirname(os.path.abspath(__file__))
mp = os.path.join(root, 'MANIFEST.json')
m = json.load(open(mp))
have = set(m['hooks']['source_commits'])
out = subprocess.check_output(['git', '-C', '/repo', 'log', '--format=%h %s', 'fabfa71..HEAD']).decode().splitlines()
for l in reversed(out):
    h, sub = l.split(' ', 1)
    if sub.startswith('verif:') and h not in have:
        m['hooks']['source_commits'].append(h)
        print('add', h, sub)
json.dump(m, open(mp, 'w'), indent=1)
