#!/bin/bash
# Build the verifier offline and warm the Go build cache for /repo (export data used by go/packages).
set -e
cd "$(dirname "$0")"
export PATH=/root/go/pkg/mod/golang.org/toolchain@v0.0.1-go1.24.0.linux-amd64/bin:$PATH
export GOTOOLCHAIN=local GOFLAGS=-mod=mod GOPROXY=off
mkdir -p bin evidence replay/out
(cd vcgo && go build -o ../bin/vcgo .)
(cd /repo && go build -tags verif ./internal/... ) || true
echo setup ok
