#!/bin/bash
# runs the thorough command of every registered check (sequentially; each uses all cores)
cd "$(dirname "$0")"
for id in $(python3 -c "import json;print(' '.join(c['property_id'] for c in json.load(open('MANIFEST.json'))['checks']))"); do
  ./check $id --tier thorough 2>&1 | tail -3
done
