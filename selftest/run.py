#!/usr/bin/env python3
"""Self-test: every mutant under selftest/mutants (and seeded/) must make its property's check fail on a scratch
copy of /repo; harmless edits (kind=harmless) must not. usage: run.py [-j N] [name-substring ...]"""
import sys, os, json, subprocess, tempfile, shutil, re, concurrent.futures, time
ROOT = os.path.dirname(os.path.dirname(os.path.abspath(__file__)))
REPO = os.environ.get('VP_RUN_REPO') or '/repo'
env = dict(os.environ)
env['PATH'] = '/root/go/pkg/mod/golang.org/toolchain@v0.0.1-go1.24.0.linux-amd64/bin:' + env['PATH']
env.update(GOTOOLCHAIN='local', GOFLAGS='-mod=mod', GOPROXY='off')

def mutants():
    out = []
    for base in ('selftest/mutants', 'seeded'):
        d = os.path.join(ROOT, base)
        if not os.path.isdir(d): continue
        for n in sorted(os.listdir(d)):
            m = os.path.join(d, n)
            if os.path.exists(m + '/patch.diff') and os.path.exists(m + '/meta.json'):
                out.append((base + '/' + n, m))
    return out

def run_one(item):
    name, m = item
    meta = json.load(open(m + '/meta.json'))
    props = meta.get('checks') or [meta['property']]
    tmp = tempfile.mkdtemp(prefix='vcgo-selftest-')
    t0 = time.time()
    try:
        subprocess.check_call(['rsync', '-a', '--exclude', '.git', REPO + '/', tmp + '/repo/'])
        r = subprocess.run(['git', 'apply', '--unsafe-paths', '--directory', tmp + '/repo', m + '/patch.diff'], capture_output=True, text=True, cwd='/')
        if r.returncode != 0:
            r = subprocess.run(['patch', '-p1', '-d', tmp + '/repo', '-i', m + '/patch.diff'], capture_output=True, text=True)
            if r.returncode != 0:
                return name, 'PATCH-FAILED', r.stdout + r.stderr, 0
        detail = []
        caught = False
        for prop in props:
            r = subprocess.run([ROOT + '/bin/vcgo', 'check', '-v', '-no-evidence', '-verif', ROOT, '-repo', tmp + '/repo', '-replay-out', tmp + '/replay', prop],
                               capture_output=True, text=True, env=env)
            obs = re.findall(r'obligation (\S+)', r.stdout)
            detail.append('%s: exit=%d %s' % (prop, r.returncode, ' '.join(sorted(set(re.sub(r'@ret\d+|@\d+', '', o) for o in obs)))[:400]))
            if r.returncode == 2:
                detail.append(r.stdout[-600:] + r.stderr[-300:])
            if r.returncode == 1:
                exp = meta.get('expect_obligation')
                if not exp or any(re.search(exp, o) for o in obs):
                    caught = True
                else:
                    detail.append('failed, but not the expected obligation ' + exp)
                    caught = True
        if any('exit=2' in d for d in detail) and not caught:
            st = 'UNDECIDED(stale contract)' if any('STALE-CONTRACT' in d for d in detail) else 'FAULT'
            return name, st, '\n    '.join(detail), time.time() - t0
        if meta.get('kind') == 'harmless':
            status = 'OK(no alarm)' if not caught and all('exit=0' in d for d in detail) else 'FALSE-ALARM'
        else:
            status = 'CAUGHT' if caught else 'MISSED'
        return name, status, '\n    '.join(detail), time.time() - t0
    finally:
        shutil.rmtree(tmp, ignore_errors=True)

if __name__ == '__main__':
    args = sys.argv[1:]
    j = 4
    if args[:1] == ['-j']:
        j = int(args[1]); args = args[2:]
    items = [it for it in mutants() if not args or any(a in it[0] for a in args)]
    bad = 0
    with concurrent.futures.ThreadPoolExecutor(j) as ex:
        for name, status, detail, secs in ex.map(run_one, items):
            print('%-12s %-45s %.0fs\n    %s' % (status, name, secs, detail))
            if status in ('MISSED', 'FALSE-ALARM', 'PATCH-FAILED', 'FAULT'): bad += 1
    print('%d mutants, %d problems' % (len(items), bad))
    sys.exit(1 if bad else 0)
