#!/usr/bin/env python3
"""mkharmless.py NAME PROP FILE 'old' 'new' ...  -> selftest/mutants/NAME with kind=harmless (must NOT alarm)"""
import sys, json, subprocess
name, prop = sys.argv[1:3]
subprocess.check_call([sys.executable, '/verif/selftest/mkmutant.py', name, prop, '.'] + sys.argv[3:])
p = '/verif/selftest/mutants/%s/meta.json' % name
m = json.load(open(p)); m['kind'] = 'harmless'; m.pop('expect_obligation', None)
json.dump(m, open(p, 'w'), indent=1)
