#!/usr/bin/env python3
"""mkmutant.py NAME PROPERTY EXPECT_REGEX FILE 'old' 'new' [FILE old new ...]
Creates selftest/mutants/NAME/{patch.diff,meta.json} from exact-string replacements against /repo HEAD."""
import sys, os, subprocess, tempfile, shutil, json
name, prop, expect = sys.argv[1:4]
edits = sys.argv[4:]
tmp = tempfile.mkdtemp()
try:
    subprocess.check_call(['git', '-C', '/repo', 'worktree', 'add', '-q', '--detach', tmp + '/r', 'HEAD'])
    r = tmp + '/r'
    for i in range(0, len(edits), 3):
        f, old, new = edits[i:i+3]
        p = os.path.join(r, f)
        s = open(p).read()
        old = old.encode().decode('unicode_escape'); new = new.encode().decode('unicode_escape')
        if s.count(old) != 1:
            sys.exit('pattern occurs %d times in %s: %r' % (s.count(old), f, old))
        open(p, 'w').write(s.replace(old, new))
    diff = subprocess.check_output(['git', '-C', r, 'diff'])
    d = '/verif/selftest/mutants/' + name
    os.makedirs(d, exist_ok=True)
    open(d + '/patch.diff', 'wb').write(diff)
    json.dump({'property': prop, 'expect_obligation': expect, 'kind': 'canary'}, open(d + '/meta.json', 'w'), indent=1)
    print('wrote', d)
finally:
    subprocess.call(['git', '-C', '/repo', 'worktree', 'remove', '--force', tmp + '/r'])
    shutil.rmtree(tmp, ignore_errors=True)
