#!/bin/bash
# run every registered check once and print its summary line
cd "$(dirname "$0")"
for id in $(python3 -c "import json;print(' '.join(c['property_id'] for c in json.load(open('MANIFEST.json'))['checks']))"); do
  ./check $id | tail -1
done
