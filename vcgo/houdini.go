package main

// Houdini-style inference of simple loop invariants (used for the no-panic obligations).

import (
	"context"
	"fmt"
	"go/ast"
	"go/types"
	"os"
	"path/filepath"
	"sort"
	"strings"
)

type cand struct {
	descr string
	term  func(st *State) string // "" when not expressible in st
}

var quickN int

// quickCheck: hyps ⊢ goal ? (synchronous, short timeout; only `unsat` counts as proved)
func (c *FnCtx) quickCheck(hyps []string, goal string) bool { return c.quickCheckT(hyps, goal, 3, []string{"z3-new", "cvc5"}) }

func (c *FnCtx) quickCheckT(hyps []string, goal string, secs int, solvers []string) bool {
	var b strings.Builder
	b.WriteString(c.prelude())
	for _, h := range hyps {
		fmt.Fprintf(&b, "(assert %s)\n", h)
	}
	fmt.Fprintf(&b, "(assert (not %s))\n(check-sat)\n", goal)
	quickN++
	fn := filepath.Join(queryDir, fmt.Sprintf("houdini_%d_%d.smt2", os.Getpid(), quickN))
	os.WriteFile(fn, []byte(b.String()), 0o644)
	defer os.Remove(fn)
	r := solveRace(context.Background(), fn, secs, solvers, false)
	return r.Status == "unsat"
}

func (c *FnCtx) loopCandidates(st *State, node ast.Node, ms *modSet) []cand {
	// variables mentioned in the loop
	mentioned := map[types.Object]bool{}
	ast.Inspect(node, func(n ast.Node) bool {
		if id, ok := n.(*ast.Ident); ok {
			if o, ok := c.info.ObjectOf(id).(*types.Var); ok {
				mentioned[o] = true
			}
		}
		return true
	})
	var ints, modInts, seqs []types.Object
	for o := range mentioned {
		v, ok := st.vars[o]
		if !ok {
			continue
		}
		switch {
		case v.S == SInt && v.Typ != nil:
			if b, ok := v.Typ.Underlying().(*types.Basic); ok && b.Info()&types.IsInteger != 0 {
				ints = append(ints, o)
				if ms.vars[o] {
					modInts = append(modInts, o)
				}
			}
		case v.S == SStr || isSeq(v.S):
			seqs = append(seqs, o)
		}
	}
	if idx, ok := c.rangeIdx[node]; ok {
		_ = idx
	}
	byName := func(xs []types.Object) {
		sort.Slice(xs, func(i, j int) bool {
			if xs[i].Name() != xs[j].Name() {
				return xs[i].Name() < xs[j].Name()
			}
			return xs[i].Pos() < xs[j].Pos()
		})
	}
	byName(ints)
	byName(modInts)
	byName(seqs)
	get := func(st *State, o types.Object) *Val { return st.vars[o] }
	var cs []cand
	for _, v := range modInts {
		v := v
		cs = append(cs, cand{"0 <= " + v.Name(), func(s *State) string {
			if x := get(s, v); x != nil {
				return tApp("<=", "0", x.T)
			}
			return ""
		}})
		for _, q := range seqs {
			q := q
			cs = append(cs, cand{v.Name() + " <= len(" + q.Name() + ")", func(s *State) string {
				x, y := get(s, v), get(s, q)
				if x == nil || y == nil || (y.S != SStr && !isSeq(y.S)) {
					return ""
				}
				return tApp("<=", x.T, c.seqLen(y))
			}})
		}
		for _, w := range ints {
			w := w
			if w == v {
				continue
			}
			cs = append(cs, cand{v.Name() + " <= " + w.Name(), func(s *State) string {
				x, y := get(s, v), get(s, w)
				if x == nil || y == nil {
					return ""
				}
				return tApp("<=", x.T, y.T)
			}})
		}
	}
	return cs
}

// inferInvariants returns the inductive subset of the candidates for this loop.
// run executes one abstract iteration from a havoced state in which `assumed` hold and returns the back-edge states.
func (c *FnCtx) inferInvariants(st *State, node ast.Node, cands []cand, run func(assumed []cand) (entry *State, back []*State)) []cand {
	live := cands
	// entry filter
	var keep []cand
	for _, k := range live {
		t := k.term(st)
		if t == "" {
			continue
		}
		if c.quickCheck(st.pc, t) {
			keep = append(keep, k)
		}
	}
	live = keep
	for iter := 0; iter < 8 && len(live) > 0; iter++ {
		// trial run: discard obligations and warnings produced
		so, sn := len(c.obls), map[string]int{}
		for k, v := range c.nObl {
			sn[k] = v
		}
		sw := len(c.warns)
		srej := c.rejected
		_, back := run(live)
		c.obls = c.obls[:so]
		c.nObl = sn
		c.warns = c.warns[:sw]
		c.rejected = srej
		changed := false
		var next []cand
		for _, k := range live {
			ok := true
			for _, b := range back {
				t := k.term(b)
				if t == "" || !c.quickCheck(b.pc, t) {
					ok = false
					break
				}
			}
			if ok {
				next = append(next, k)
			} else {
				changed = true
			}
		}
		live = next
		if !changed {
			break
		}
	}
	return live
}
