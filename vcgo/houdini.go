package main

// Houdini-style inference of simple loop invariants (used for the no-panic obligations).

import (
	"context"
	"fmt"
	"go/ast"
	"go/types"
	"os"
	"path/filepath"
	"sort"
	"strings"
	"sync"
)

type cand struct {
	descr string
	term  func(st *State) string // "" when not expressible in st
}

var quickN int

// quickCheck: hyps ⊢ goal ? (synchronous, short timeout; only `unsat` counts as proved)
func (c *FnCtx) quickCheck(hyps []string, goal string) bool {
	return c.quickCheckT(hyps, goal, 3, []string{"z3-new", "cvc5"})
}

func (c *FnCtx) quickCheckT(hyps []string, goal string, secs int, solvers []string) bool {
	return c.quickCheckP(c.prelude(), hyps, goal, secs, solvers)
}

var quickMu sync.Mutex

func (c *FnCtx) quickCheckP(prelude string, hyps []string, goal string, secs int, solvers []string) bool {
	var b strings.Builder
	b.WriteString(prelude)
	for _, h := range hyps {
		fmt.Fprintf(&b, "(assert %s)\n", h)
	}
	fmt.Fprintf(&b, "(assert (not %s))\n(check-sat)\n", goal)
	quickMu.Lock()
	quickN++
	qn := quickN
	quickMu.Unlock()
	fn := filepath.Join(queryDir, fmt.Sprintf("houdini_%d_%d.smt2", os.Getpid(), qn))
	os.WriteFile(fn, []byte(b.String()), 0o644)
	defer os.Remove(fn)
	r := solveRace(context.Background(), fn, secs, solvers, false)
	return r.Status == "unsat"
}

func (c *FnCtx) loopCandidates(st *State, node ast.Node, ms *modSet) []cand {
	// variables mentioned in the loop
	mentioned := map[types.Object]bool{}
	ast.Inspect(node, func(n ast.Node) bool {
		if id, ok := n.(*ast.Ident); ok {
			if o, ok := c.info.ObjectOf(id).(*types.Var); ok {
				mentioned[o] = true
			}
		}
		return true
	})
	var ints, modInts, seqs []types.Object
	for o := range mentioned {
		v, ok := st.vars[o]
		if !ok {
			continue
		}
		switch {
		case v.S == SInt && v.Typ != nil:
			if b, ok := v.Typ.Underlying().(*types.Basic); ok && b.Info()&types.IsInteger != 0 {
				ints = append(ints, o)
				if ms.vars[o] {
					modInts = append(modInts, o)
				}
			}
		case v.S == SStr || isSeq(v.S):
			seqs = append(seqs, o)
		}
	}
	if idx, ok := c.rangeIdx[node]; ok {
		_ = idx
	}
	byName := func(xs []types.Object) {
		sort.Slice(xs, func(i, j int) bool {
			if xs[i].Name() != xs[j].Name() {
				return xs[i].Name() < xs[j].Name()
			}
			return xs[i].Pos() < xs[j].Pos()
		})
	}
	byName(ints)
	byName(modInts)
	byName(seqs)
	get := func(st *State, o types.Object) *Val { return st.vars[o] }
	var cs []cand
	for _, v := range modInts {
		v := v
		cs = append(cs, cand{"0 <= " + v.Name(), func(s *State) string {
			if x := get(s, v); x != nil {
				return tApp("<=", "0", x.T)
			}
			return ""
		}})
		cs = append(cs, cand{"1 <= " + v.Name(), func(s *State) string {
			if x := get(s, v); x != nil {
				return tApp("<=", "1", x.T)
			}
			return ""
		}})
		for _, q := range seqs {
			q := q
			cs = append(cs, cand{v.Name() + " <= len(" + q.Name() + ")", func(s *State) string {
				x, y := get(s, v), get(s, q)
				if x == nil || y == nil || (y.S != SStr && !isSeq(y.S)) {
					return ""
				}
				return tApp("<=", x.T, c.seqLen(y))
			}})
		}
		for _, w := range ints {
			w := w
			if w == v {
				continue
			}
			cs = append(cs, cand{v.Name() + " <= " + w.Name(), func(s *State) string {
				x, y := get(s, v), get(s, w)
				if x == nil || y == nil {
					return ""
				}
				return tApp("<=", x.T, y.T)
			}})
		}
	}
	// sequences modified in the loop: their length is often unchanged (element stores)
	for _, q := range seqs {
		q := q
		if !ms.vars[q] {
			continue
		}
		v0 := st.vars[q]
		if v0 == nil || (v0.S != SStr && !isSeq(v0.S)) {
			continue
		}
		entryLen := c.seqLen(v0)
		cs = append(cs, cand{"len(" + q.Name() + ") unchanged", func(s *State) string {
			y := get(s, q)
			if y == nil || (y.S != SStr && !isSeq(y.S)) {
				return ""
			}
			return tEq(c.seqLen(y), entryLen)
		}})
	}
	return cs
}

// inferInvariants returns the inductive subset of the candidates for this loop.
// run executes one abstract iteration from a havoced state in which `assumed` hold and returns the back-edge states.
func (c *FnCtx) inferInvariants(st *State, node ast.Node, cands []cand, run func(assumed []cand) (entry *State, back []*State)) []cand {
	live := cands
	// entry filter
	{
		terms := make([]string, len(live))
		for i, k := range live {
			terms[i] = k.term(st)
		}
		pre := c.prelude()
		okv := make([]bool, len(live))
		var wg sync.WaitGroup
		sem := make(chan struct{}, 8)
		for i := range live {
			if terms[i] == "" {
				continue
			}
			wg.Add(1)
			sem <- struct{}{}
			go func(i int) {
				defer wg.Done()
				defer func() { <-sem }()
				okv[i] = c.quickCheckP(pre, st.pc, terms[i], 3, []string{"z3-new", "cvc5"})
			}(i)
		}
		wg.Wait()
		var keep []cand
		for i, k := range live {
			if okv[i] {
				keep = append(keep, k)
			}
		}
		live = keep
	}
	for iter := 0; iter < 8 && len(live) > 0; iter++ {
		// trial run: discard obligations and warnings produced
		so, sn := len(c.obls), map[string]int{}
		for k, v := range c.nObl {
			sn[k] = v
		}
		sw := len(c.warns)
		srej := c.rejected
		_, back := run(live)
		c.obls = c.obls[:so]
		c.nObl = sn
		c.warns = c.warns[:sw]
		c.rejected = srej
		changed := false
		var next []cand
		{
			pre := c.prelude()
			okv := make([]bool, len(live))
			type job struct {
				i int
				b *State
				t string
			}
			var jobs []job
			for i, k := range live {
				okv[i] = true
				for _, b := range back {
					t := k.term(b)
					if t == "" {
						okv[i] = false
						break
					}
					jobs = append(jobs, job{i, b, t})
				}
			}
			var mu sync.Mutex
			var wg sync.WaitGroup
			sem := make(chan struct{}, 8)
			for _, j := range jobs {
				wg.Add(1)
				sem <- struct{}{}
				go func(j job) {
					defer wg.Done()
					defer func() { <-sem }()
					if !c.quickCheckP(pre, j.b.pc, j.t, 3, []string{"z3-new", "cvc5"}) {
						mu.Lock()
						okv[j.i] = false
						mu.Unlock()
					}
				}(j)
			}
			wg.Wait()
			for i, k := range live {
				if okv[i] {
					next = append(next, k)
				} else {
					changed = true
				}
			}
		}
		live = next
		if !changed {
			break
		}
	}
	return live
}
