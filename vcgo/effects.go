package main

// Effect inference (DESIGN §3.5 "frames and effects"): for every function of the loaded repo packages, the set of
// struct fields it may write / read (by static type: "pkg.Type.field"), the ghost variables it may change and whether
// it operates the server lock — computed syntactically over the typed AST and closed over static calls.
// Used (a) to check declared effect classes of command handlers, (b) to synthesise frames for callees without contract.

import (
	"fmt"
	"go/ast"
	"go/token"
	"go/types"
	"sort"
	"strings"

	"golang.org/x/tools/go/packages"
)

type Effects struct {
	W, R    map[string]bool
	C       map[string]bool // fields whose pointee / map content is changed (the field itself keeps its value)
	G       map[string]bool // ghost variables written (through contracts of callees)
	LockOps map[string]bool // rwlocker methods applied to Server.mu
	Calls   map[string]bool // static repo callees
	Unknown map[string]bool // calls that could not be resolved
	Spawns  map[string]bool // go statements
}

func newEffects() *Effects {
	return &Effects{C: map[string]bool{}, W: map[string]bool{}, R: map[string]bool{}, G: map[string]bool{}, LockOps: map[string]bool{}, Calls: map[string]bool{}, Unknown: map[string]bool{}, Spawns: map[string]bool{}}
}

var mutatingMethods = map[string]bool{"Set": true, "Delete": true, "Clear": true, "Insert": true, "Load": true, "ReplaceOrInsert": true,
	"Store": true, "Add": true, "CompareAndSwap": true, "Swap": true, "Replace": true, "DeleteMin": true, "DeleteMax": true, "PopMin": true, "PopMax": true,
	"Write": true, "WriteString": true, "WriteByte": true, "Reset": true, "Truncate": true, "Seek": true, "Close": true, "Sync": true,
	"Broadcast": true, "Signal": true, "Wait": true, "Update": true, "Shrink": true, "push": true, "pop": true, "Push": true, "Pop": true}

func fieldKeyOf(sel *types.Selection) string {
	t := sel.Recv()
	idx := sel.Index()
	key := ""
	for _, i := range idx {
		stt, _ := structOf(t)
		if stt == nil {
			return ""
		}
		f := stt.Field(i)
		key = typeShortName(t) + "." + f.Name()
		t = f.Type()
	}
	return key
}

// rootField returns the field key denoted by an expression that selects (possibly through index/deref/paren) a struct field.
func rootField(info *types.Info, e ast.Expr) string {
	for {
		switch x := e.(type) {
		case *ast.ParenExpr:
			e = x.X
		case *ast.StarExpr:
			e = x.X
		case *ast.IndexExpr:
			e = x.X
		case *ast.SliceExpr:
			e = x.X
		case *ast.UnaryExpr:
			if x.Op == token.AND {
				e = x.X
				continue
			}
			return ""
		case *ast.SelectorExpr:
			if sel := info.Selections[x]; sel != nil && sel.Kind() == types.FieldVal {
				return fieldKeyOf(sel)
			}
			return ""
		default:
			return ""
		}
	}
}

func (v *Verifier) directEffects(pkg *packages.Package, fd *ast.FuncDecl) *Effects {
	ef := newEffects()
	info := pkg.TypesInfo
	if fd.Body == nil {
		return ef
	}
	written := map[ast.Expr]bool{}
	markWrite := func(l ast.Expr) {
		if k := rootField(info, l); k != "" {
			isMapElem := false
			if ix, ok := l.(*ast.IndexExpr); ok {
				if t := info.TypeOf(ix.X); t != nil {
					_, isMapElem = t.Underlying().(*types.Map)
				}
			}
			if isMapElem {
				ef.C[k] = true
			} else {
				ef.W[k] = true
			}
		}
		// the written selector itself is not a read
		for {
			switch x := l.(type) {
			case *ast.ParenExpr:
				l = x.X
				continue
			case *ast.IndexExpr:
				l = x.X
				continue
			case *ast.StarExpr:
				l = x.X
				continue
			}
			break
		}
		written[l] = true
	}
	ast.Inspect(fd.Body, func(n ast.Node) bool {
		switch x := n.(type) {
		case *ast.AssignStmt:
			for _, l := range x.Lhs {
				markWrite(l)
			}
		case *ast.IncDecStmt:
			markWrite(x.X)
		case *ast.RangeStmt:
			if x.Tok == token.ASSIGN {
				if x.Key != nil {
					markWrite(x.Key)
				}
				if x.Value != nil {
					markWrite(x.Value)
				}
			}
		case *ast.GoStmt:
			if ci := calleeStatic(info, x.Call); ci != nil {
				ef.Spawns[typesFuncKey(ci)] = true
			} else {
				ef.Spawns["(closure)"] = true
			}
			return false // effects of the spawned goroutine are not effects of this call
		case *ast.SelectorExpr:
			if sel := info.Selections[x]; sel != nil && sel.Kind() == types.FieldVal && !written[x] {
				if k := fieldKeyOf(sel); k != "" {
					ef.R[k] = true
				}
			}
		case *ast.CallExpr:
			v.callEffects(info, x, ef)
		}
		return true
	})
	return ef
}

func calleeStatic(info *types.Info, call *ast.CallExpr) *types.Func {
	fun := call.Fun
	for {
		if p, ok := fun.(*ast.ParenExpr); ok {
			fun = p.X
			continue
		}
		if ix, ok := fun.(*ast.IndexExpr); ok {
			fun = ix.X
			continue
		}
		break
	}
	switch f := fun.(type) {
	case *ast.Ident:
		if o, ok := info.Uses[f].(*types.Func); ok {
			return o
		}
	case *ast.SelectorExpr:
		if sel := info.Selections[f]; sel != nil && sel.Kind() == types.MethodVal {
			if o, ok := sel.Obj().(*types.Func); ok {
				return o
			}
		}
		if o, ok := info.Uses[f.Sel].(*types.Func); ok {
			return o
		}
	}
	return nil
}

func isRepoPkg(p *types.Package) bool {
	return p != nil && strings.HasPrefix(p.Path(), "github.com/tidwall/tile38")
}

func (v *Verifier) callEffects(info *types.Info, call *ast.CallExpr, ef *Effects) {
	fun := call.Fun
	for {
		if p, ok := fun.(*ast.ParenExpr); ok {
			fun = p.X
			continue
		}
		break
	}
	if tv, ok := info.Types[fun]; ok && tv.IsType() {
		return
	}
	if id, ok := fun.(*ast.Ident); ok {
		if b, ok := info.Uses[id].(*types.Builtin); ok {
			switch b.Name() {
			case "delete", "clear":
				if len(call.Args) > 0 {
					if k := rootField(info, call.Args[0]); k != "" {
						ef.C[k] = true
					}
				}
			case "copy":
				if len(call.Args) > 0 {
					if k := rootField(info, call.Args[0]); k != "" {
						ef.W[k] = true
					}
				}
			}
			return
		}
	}
	fn := calleeStatic(info, call)
	if fn == nil {
		switch f := fun.(type) {
		case *ast.FuncLit:
			return // body is walked as part of the enclosing function
		case *ast.Ident:
			if _, ok := info.Uses[f].(*types.Var); ok {
				ef.Unknown["call through function value "+f.Name] = true
				return
			}
		case *ast.SelectorExpr:
			if sel := info.Selections[f]; sel != nil && sel.Kind() == types.FieldVal {
				ef.Unknown["call through function-typed field "+fieldKeyOf(sel)] = true
				return
			}
		}
		ef.Unknown["unresolved call"] = true
		return
	}
	sig, _ := fn.Type().(*types.Signature)
	// receiver is a struct field (directly or through deref): container / atomic / mutex methods
	if se, ok := fun.(*ast.SelectorExpr); ok && sig != nil && sig.Recv() != nil {
		recvField := rootField(info, se.X)
		_, isIface := sig.Recv().Type().Underlying().(*types.Interface)
		if isIface && isRepoPkg(fn.Pkg()) {
			// repo interface: lock operations are tracked; other interface calls are resolved by method name
			if typeShortName(sig.Recv().Type()) == "server.rwlocker" {
				ef.LockOps[fn.Name()] = true
				return
			}
			ef.Calls["iface:"+fn.Name()] = true
			return
		}
		if !isRepoPkg(fn.Pkg()) {
			if recvField != "" {
				if mutatingMethods[fn.Name()] {
					ef.C[recvField] = true
				}
			}
			if c := v.specs.Contracts[typesFuncKey(fn)]; c != nil {
				for _, m := range c.Modifies {
					if id, ok := m.Expr.(*ast.Ident); ok {
						if gv, isG := v.specs.GhostVars[id.Name]; isG && !gv.Scratch {
							ef.G[id.Name] = true
						}
					}
				}
			}
			return
		}
	}
	if isRepoPkg(fn.Pkg()) {
		ef.Calls[typesFuncKey(fn)] = true
		return
	}
	// external function: pointer arguments to fields may be written (e.g. json.Unmarshal(&x.f))
	for _, a := range call.Args {
		if u, ok := a.(*ast.UnaryExpr); ok && u.Op == token.AND {
			if k := rootField(info, u.X); k != "" {
				ef.W[k] = true
			}
		}
	}
}

// computeEffects: direct effects of every function, then the closure over static calls.
func (v *Verifier) computeEffects() {
	v.effects = map[string]*Effects{}
	byName := map[string][]string{} // method name -> keys (for interface resolution)
	v.assignedIn = map[string][]string{}
	for k, fd := range v.funcs {
		v.effects[k] = v.directEffects(v.funcPkg[k], fd)
		for f := range v.effects[k].W {
			v.assignedIn[f] = append(v.assignedIn[f], k)
		}
		if fd.Recv != nil {
			byName[fd.Name.Name] = append(byName[fd.Name.Name], k)
		}
		// ghost effects declared by the function's own contract
		if c := v.specs.Contracts[k]; c != nil {
			for _, m := range c.Modifies {
				if id, ok := m.Expr.(*ast.Ident); ok {
					if gv, isG := v.specs.GhostVars[id.Name]; isG && !gv.Scratch {
						v.effects[k].G[id.Name] = true
					}
				}
			}
		}
	}
	changed := true
	for changed {
		changed = false
		for _, ef := range v.effects {
			for callee := range ef.Calls {
				var targets []string
				if strings.HasPrefix(callee, "iface:") {
					targets = byName[callee[6:]]
				} else {
					targets = []string{callee}
				}
				for _, t := range targets {
					ce := v.effects[t]
					if ce == nil {
						continue
					}
					if c := v.specs.Contracts[t]; c != nil && c.Flags["effects-boundary"] {
						// the callee enforces its own gate (proved separately); its effects are not attributed to callers
						continue
					}
					merge := func(dst, src map[string]bool) {
						for k := range src {
							if !dst[k] {
								dst[k] = true
								changed = true
							}
						}
					}
					merge(ef.W, ce.W)
					merge(ef.C, ce.C)
					merge(ef.R, ce.R)
					merge(ef.G, ce.G)
					merge(ef.LockOps, ce.LockOps)
					merge(ef.Unknown, ce.Unknown)
				}
			}
		}
	}
}

// regions
type Region struct {
	Name string
	Keys []string // "pkg.Type.field" or "pkg.Type.*"
}

func (r *Region) has(key string) bool {
	for _, k := range r.Keys {
		if k == key {
			return true
		}
		if strings.HasSuffix(k, ".*") && strings.HasPrefix(key, k[:len(k)-1]) {
			return true
		}
	}
	return false
}

func (v *Verifier) regionsOf(keys map[string]bool) []string {
	found := map[string]bool{}
	for k := range keys {
		for _, r := range v.specs.Regions {
			if r.has(k) {
				found[r.Name] = true
			}
		}
	}
	out := make([]string, 0, len(found))
	for r := range found {
		out = append(out, r)
	}
	sort.Strings(out)
	return out
}

func (v *Verifier) effectSummary(key string) string {
	ef := v.effects[key]
	if ef == nil {
		return "no effects computed"
	}
	return fmt.Sprintf("writes%v reads%v ghosts%v lock%v", v.regionsOf(ef.allWrites()), v.regionsOf(ef.R), sortedKeys(ef.G), sortedKeys(ef.LockOps))
}

// allWrites: fields assigned or whose content is changed
func (ef *Effects) allWrites() map[string]bool {
	m := make(map[string]bool, len(ef.W)+len(ef.C))
	for k := range ef.W {
		m[k] = true
	}
	for k := range ef.C {
		m[k] = true
	}
	return m
}
