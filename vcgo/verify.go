package main

// Per-function verification: set up the pre-state, execute the body, emit obligations.

import (
	"fmt"
	"go/ast"
	"go/types"
	"math"
	"sort"
	"strings"
)

func fpLit(f float64, s Sort) string {
	if s == "(_ FloatingPoint 8 24)" {
		b := math.Float32bits(float32(f))
		return fmt.Sprintf("(fp #b%01b #b%08b #b%023b)", b>>31, (b>>23)&0xff, b&0x7fffff)
	}
	b := math.Float64bits(f)
	return fmt.Sprintf("(fp #b%01b #b%011b #b%052b)", b>>63, (b>>52)&0x7ff, b&0xfffffffffffff)
}

type FuncResult struct {
	Key         string
	Rejected    string
	Obls        []*Obligation
	Queries     []*Query
	Warns       []string
	Assumes     []string
	SpecErrs    []string
	UsedCons    []string
	NoContract  []string
	ExternNoCon []string
	Split       string
}

func (v *Verifier) newCtx(key string) (*FnCtx, error) {
	fd := v.funcs[key]
	if fd == nil {
		return nil, fmt.Errorf("no such function in the loaded packages: %s", key)
	}
	pkg := v.funcPkg[key]
	con := v.specs.Contracts[key]
	if con == nil {
		con = &Contract{Key: key, Loops: map[int]*LoopSpec{}, Flags: map[string]bool{}, Asserts: map[string][]Clause{}}
	}
	c := &FnCtx{V: v, pkg: pkg, info: pkg.TypesInfo, fd: fd, key: key, con: con, decls: newDecls(),
		entry: map[string]*Val{}, loopOrd: map[ast.Node]int{}, assumes: map[string]bool{}, lits: map[string]string{},
		inputs: map[string]string{}, usedCons: map[string]bool{}, labels: map[string]int{}, nObl: map[string]int{},
		errGlobals: map[string]bool{}, boxedScalars: map[types.Object]string{}, typeTags: map[string]bool{},
		closureLits: map[types.Object]*ast.FuncLit{}, inModScan: map[*ast.FuncLit]bool{}, hiddenIdx: map[ast.Node]types.Object{},
		rangeIdx: map[ast.Node]types.Object{}, rangeLen: map[ast.Node]string{}, callOrds: map[*ast.CallExpr]int{},
		nocontract: map[string]bool{}, externNoCon: map[string]bool{}, inTrial: map[ast.Node]bool{}}
	c.nopanic = con.Flags["nopanic"]
	c.ieee = con.Flags["ieee"]
	c.declSeq(SStr)
	// loop ordinals (pre-order over the whole declaration) and closure literal bindings
	n := 0
	ast.Inspect(fd, func(nd ast.Node) bool {
		switch x := nd.(type) {
		case *ast.ForStmt, *ast.RangeStmt:
			n++
			c.loopOrd[nd] = n
		case *ast.AssignStmt:
			for i, r := range x.Rhs {
				if fl, ok := r.(*ast.FuncLit); ok && i < len(x.Lhs) {
					if id, ok := x.Lhs[i].(*ast.Ident); ok {
						if o := c.info.ObjectOf(id); o != nil {
							c.closureLits[o] = fl
						}
					}
				}
			}
		}
		return true
	})
	return c, nil
}

// verifyFunc runs one function (one split case).
func (v *Verifier) verifyFunc(key string, splitName, splitCase string, splitCond *Clause) *FuncResult {
	res := &FuncResult{Key: key, Split: splitCase}
	c, err := v.newCtx(key)
	if err != nil {
		res.Rejected = err.Error()
		return res
	}
	c.splitTag = splitCase
	fd := c.fd
	if fd.Body == nil {
		res.Rejected = "no body"
		return res
	}
	st := &State{vars: map[types.Object]*Val{}, heap: map[string]string{}, ghost: map[string]string{}}
	c.pre = &State{vars: map[types.Object]*Val{}, heap: map[string]string{}, ghost: map[string]string{}}
	// parameters
	bindParam := func(id *ast.Ident) {
		o, _ := c.info.Defs[id].(*types.Var)
		if o == nil {
			return
		}
		val := c.havocVal(nil, o.Type(), "in_"+id.Name)
		c.paramFacts(st, val)
		st.vars[o] = val
		c.pre.vars[o] = val
		c.entry[id.Name] = val
		c.params = append(c.params, o)
		if val.S != SNone {
			c.inputs[id.Name] = val.T
		}
	}
	if fd.Recv != nil {
		for _, f := range fd.Recv.List {
			for _, n := range f.Names {
				bindParam(n)
			}
		}
	}
	for _, f := range fd.Type.Params.List {
		for _, n := range f.Names {
			bindParam(n)
		}
	}
	sig := c.info.Defs[fd.Name].Type().(*types.Signature)
	fr := &frame{}
	if fd.Type.Results != nil {
		k := 0
		for _, f := range fd.Type.Results.List {
			if len(f.Names) == 0 {
				o := types.NewVar(fd.Pos(), c.pkg.Types, fmt.Sprintf("result%d", k), sig.Results().At(k).Type())
				st.vars[o] = c.zeroVal(o.Type())
				fr.results = append(fr.results, o)
				k++
				continue
			}
			for _, n := range f.Names {
				o := c.info.Defs[n]
				st.vars[o] = c.zeroVal(o.Type())
				fr.results = append(fr.results, o)
				k++
			}
		}
	}
	c.results = fr.results
	c.frames = []*frame{fr}
	// requires
	env := c.specEnvAt(st, fd.Body.Rbrace)
	for _, r := range c.con.Requires {
		st.assume(c.specBool(env, r.Expr))
	}
	if splitCond != nil {
		st.assume(c.specBool(env, splitCond.Expr))
	}
	c.pre.pc = append([]string(nil), st.pc...)
	// snapshot the pre-state heap/ghost lazily: heapGet records first use in c.pre too
	exits := c.execBlock(st, fd.Body.List)
	var rets []*State
	for _, ex := range exits {
		switch ex.kind {
		case exNormal, exReturn:
			rets = append(rets, c.runDefers(ex.st)...)
		case exPanic:
		default:
			c.warn("unexpected exit kind at function end")
		}
	}
	if c.rejected != "" {
		res.Rejected = c.rejected
		return res
	}
	// ensures at every return
	for ri, rs := range rets {
		envp := c.specEnvAt(rs, fd.Body.Rbrace)
		for i, e := range c.con.Ensures {
			t := c.specBool(envp, e.Expr)
			c.addObl(&Obligation{Name: fmt.Sprintf("%s/ensures#%s@ret%d", c.key, clauseID(e, i), ri+1), Kind: "ensures",
				Descr: "postcondition", Pos: c.pos(fd), Hyps: append([]string(nil), rs.pc...), Goal: t, Clause: e.Src})
		}
		// frame: modifies nothing / declared fields only
		c.frameObligations(rs, ri)
	}
	// vacuity: some return must be reachable (only when there is a contract with obligations)
	if len(rets) > 0 && (len(c.con.Requires) > 0 || len(c.con.Ensures) > 0 || splitCond != nil) {
		var pcs []string
		for _, rs := range rets {
			pcs = append(pcs, rs.pcTerm())
		}
		c.addObl(&Obligation{Name: c.key + "/vacuity", Kind: "vacuity", Descr: "precondition and path assumptions are satisfiable (planted false must fail)",
			Hyps: nil, Goal: tNot(tOr(pcs...)), Expect: "notunsat", Timeout: 3})
	}
	res.Obls = c.obls
	res.Warns = c.warns
	res.SpecErrs = c.specErrs
	for a := range c.assumes {
		res.Assumes = append(res.Assumes, a)
	}
	sort.Strings(res.Assumes)
	res.UsedCons = sortedKeys(c.usedCons)
	res.NoContract = sortedKeys(c.nocontract)
	res.ExternNoCon = sortedKeys(c.externNoCon)
	// build queries
	prelude := c.prelude()
	for _, o := range c.obls {
		q := &Query{Name: o.Name, Kind: o.Kind, Func: c.key, Descr: o.Descr, Pos: o.Pos, Expect: o.Expect, Only: o.Only, Timeout: o.Timeout}
		if q.Expect == "" {
			q.Expect = "unsat"
		}
		var b strings.Builder
		b.WriteString(prelude)
		for _, h := range o.Hyps {
			fmt.Fprintf(&b, "(assert %s)\n", h)
		}
		fmt.Fprintf(&b, "(assert (not %s))\n(check-sat)\n", o.Goal)
		if q.Expect == "unsat" {
			b.WriteString("(get-model)\n")
		}
		q.Text = b.String()
		q.obl = o
		res.Queries = append(res.Queries, q)
	}
	return res
}

// verifyLemma proves a lemma from the axioms/lemmas it names.
func (v *Verifier) verifyLemma(ax *Axiom) *FuncResult {
	key := "lemma." + ax.Name
	res := &FuncResult{Key: key}
	c := &FnCtx{V: v, key: key, con: &Contract{Key: key, Loops: map[int]*LoopSpec{}, Flags: map[string]bool{}, Asserts: map[string][]Clause{}, Lemmas: ax.Uses}, decls: newDecls(),
		entry: map[string]*Val{}, loopOrd: map[ast.Node]int{}, assumes: map[string]bool{}, lits: map[string]string{},
		inputs: map[string]string{}, usedCons: map[string]bool{}, labels: map[string]int{}, nObl: map[string]int{},
		errGlobals: map[string]bool{}, boxedScalars: map[types.Object]string{}, typeTags: map[string]bool{},
		nocontract: map[string]bool{}, externNoCon: map[string]bool{}, inTrial: map[ast.Node]bool{}}
	if len(c.con.Lemmas) == 0 {
		c.con.Lemmas = []string{"-none-"}
	}
	c.pre = &State{vars: map[types.Object]*Val{}, heap: map[string]string{}, ghost: map[string]string{}}
	c.declSeq(SStr)
	env := &SpecEnv{c: c, st: c.pre, lookup: func(string) *Val { return nil }}
	env.old = env
	goal := c.specBool(env, ax.Clause.Expr)
	c.addObl(&Obligation{Name: key, Kind: "lemma", Descr: "lemma follows from " + strings.Join(ax.Uses, ", "), Pos: ax.Clause.Line, Goal: goal, Clause: ax.Clause.Src})
	res.Obls = c.obls
	res.SpecErrs = c.specErrs
	prelude := c.prelude()
	for _, o := range c.obls {
		q := &Query{Name: o.Name, Kind: o.Kind, Func: key, Descr: o.Descr, Pos: o.Pos, Expect: "unsat", obl: o}
		q.Text = prelude + fmt.Sprintf("(assert (not %s))\n(check-sat)\n", o.Goal)
		res.Queries = append(res.Queries, q)
	}
	return res
}

// paramFacts: well-formedness of inputs
func (c *FnCtx) paramFacts(st *State, v *Val) {
	if v.S == SInt && v.Typ != nil {
		if lo, hi, ok := intRange(v.Typ); ok {
			if b, isb := v.Typ.Underlying().(*types.Basic); isb && b.Info()&types.IsInteger != 0 {
				st.assume(fmt.Sprintf("(and (<= %s %s) (<= %s %s))", lo, v.T, v.T, hi))
			}
		}
		switch v.Typ.Underlying().(type) {
		case *types.Pointer, *types.Interface, *types.Map, *types.Chan, *types.Signature:
			c.decls.declFun("allocated0", []Sort{SInt}, SBool)
			st.assume(tAnd(tApp(">=", v.T, "0"), tOr(tEq(v.T, "0"), tApp("allocated0", v.T))))
		}
	}
	if v.S == SNone {
		for _, f := range v.Fields {
			c.paramFacts(st, f)
		}
	}
}

// frameObligations: with `modifies nothing`, every heap array must be unchanged at return.
func (c *FnCtx) frameObligations(rs *State, ri int) {
	if !c.con.Flags["modifies-nothing"] && len(c.con.Modifies) == 0 {
		return
	}
	if c.con.ModAll {
		return
	}
	allowed := map[string][]string{} // heap key -> refs allowed to change
	envp := c.specEnvAt(c.pre, c.fd.Body.Rbrace)
	ghostsAllowed := map[string]bool{}
	for _, m := range c.con.Modifies {
		switch x := m.Expr.(type) {
		case *ast.Ident:
			if _, ok := c.V.specs.GhostVars[x.Name]; ok {
				ghostsAllowed[x.Name] = true
				continue
			}
			if v := envp.lookup(x.Name); v != nil && v.Typ != nil {
				ms := newModSet()
				c.addHeapKeys(typeShortName(v.Typ), "", elemOfPtr(v.Typ), ms)
				ref := v.T
				if v.Box != "" {
					ref = v.Box
				}
				for k := range ms.heap {
					allowed[k] = append(allowed[k], ref)
				}
			}
		case *ast.StarExpr:
			p := c.specEval(envp, x.X)
			if p.Typ != nil {
				if pt, ok := p.Typ.Underlying().(*types.Pointer); ok {
					if es := c.sortOf(pt.Elem()); es != SNone {
						k := "ptr." + sortName(es)
						allowed[k] = append(allowed[k], p.T)
					} else {
						ms := newModSet()
						c.addHeapKeys(typeShortName(pt.Elem()), "", pt.Elem(), ms)
						for k := range ms.heap {
							allowed[k] = append(allowed[k], p.T)
						}
					}
				}
			}
		case *ast.SelectorExpr:
			base := c.specEval(envp, x.X)
			if base.Typ != nil {
				if stt, _ := structOf(base.Typ); stt != nil {
					for i := 0; i < stt.NumFields(); i++ {
						if f := stt.Field(i); f.Name() == x.Sel.Name {
							ms := newModSet()
							c.addHeapKeys(typeShortName(base.Typ), f.Name(), f.Type(), ms)
							for k := range ms.heap {
								allowed[k] = append(allowed[k], base.T)
							}
						}
					}
				}
			}
		}
	}
	keys := sortedKeys(rs.heap)
	for _, k := range keys {
		cur := rs.heap[k]
		pre, ok := c.pre.heap[k]
		if !ok {
			pre = "H_" + sanitizeSym(k)
		}
		if cur == pre {
			continue
		}
		var goal string
		if refs, ok := allowed[k]; ok {
			var ne []string
			for _, ref := range refs {
				ne = append(ne, tNot(tEq("r", ref)))
			}
			goal = fmt.Sprintf("(forall ((r Int)) (=> (and %s (allocated0 r)) (= (select %s r) (select %s r))))", tAnd(ne...), cur, pre)
		} else {
			goal = fmt.Sprintf("(forall ((r Int)) (=> (allocated0 r) (= (select %s r) (select %s r))))", cur, pre)
		}
		c.decls.declFun("allocated0", []Sort{SInt}, SBool)
		c.addObl(&Obligation{Name: fmt.Sprintf("%s/frame.%s@ret%d", c.key, k, ri+1), Kind: "frame", Descr: "only the declared locations change: " + k,
			Pos: c.pos(c.fd), Hyps: append([]string(nil), rs.pc...), Goal: goal, Clause: "modifies"})
	}
	for _, g := range c.V.specs.GVOrder {
		cur, ok := rs.ghost[g]
		if !ok || ghostsAllowed[g] {
			continue
		}
		pre := c.pre.ghost[g]
		if pre == "" {
			pre = "ghost0_" + g
		}
		if cur == pre {
			continue
		}
		c.addObl(&Obligation{Name: fmt.Sprintf("%s/frame.ghost.%s@ret%d", c.key, g, ri+1), Kind: "frame", Descr: "ghost " + g + " unchanged",
			Pos: c.pos(c.fd), Hyps: append([]string(nil), rs.pc...), Goal: tEq(cur, pre), Clause: "modifies"})
	}
}

// prelude: declarations, axioms, facts.
func (c *FnCtx) prelude() string {
	var b strings.Builder
	// spec axioms (evaluate first: may add declarations)
	var axs []string
	use := map[string]bool{}
	for _, l := range c.con.Lemmas {
		use[l] = true
	}
	for _, ax := range c.V.specs.Axioms {
		if !use[ax.Name] && !use["*"] && !strings.HasPrefix(ax.Name, "auto.") {
			continue
		}
		env := &SpecEnv{c: c, st: c.pre, lookup: func(string) *Val { return nil }}
		env.old = env
		kind := "axiom"
		if ax.Lemma {
			kind = "lemma"
		}
		axs = append(axs, "; "+kind+" "+ax.Name+"\n(assert "+c.specBool(env, ax.Clause.Expr)+")")
		c.usedAxioms = append(c.usedAxioms, ax.Name)
	}
	for _, so := range append([]string(nil), c.decls.sortsO...) {
		if so == "Str" || strings.HasPrefix(so, "Seq_") {
			c.declSeq(Sort(so))
		}
	}
	b.WriteString("(set-option :produce-models true)\n(set-logic ALL)\n")
	b.WriteString(c.decls.text())
	if c.needStrOrder {
		b.WriteString(strOrderDecl)
	}
	// sequence axioms for every declared sequence sort
	for _, s := range c.decls.sortsO {
		if s == "Str" || strings.HasPrefix(s, "Seq_") {
			for _, a := range seqAxioms(Sort(s)) {
				fmt.Fprintf(&b, "(assert %s)\n", a)
			}
		}
	}
	if c.needStrOrder {
		b.WriteString(strOrderAxioms)
	}
	for _, f := range c.litFacts() {
		fmt.Fprintf(&b, "(assert %s)\n", f)
	}
	// error sentinels
	eg := sortedKeys(c.errGlobals)
	for _, g := range eg {
		fmt.Fprintf(&b, "(assert (> %s 0))\n", g)
	}
	if len(eg) > 1 {
		fmt.Fprintf(&b, "(assert (distinct %s))\n", strings.Join(eg, " "))
	}
	tt := sortedKeys(c.typeTags)
	if len(tt) > 1 {
		fmt.Fprintf(&b, "(assert (distinct %s))\n", strings.Join(tt, " "))
	}
	for _, d := range c.ghostDefs {
		fmt.Fprintf(&b, "(assert %s)\n", d)
	}
	for _, a := range axs {
		b.WriteString(a + "\n")
	}
	for _, f := range c.facts {
		fmt.Fprintf(&b, "(assert %s)\n", f)
	}
	return b.String()
}

const strOrderDecl = "(declare-fun slt (Str Str) Bool)\n"

// Lexicographic byte order on Str, axiomatised by witness introduction (DESIGN §3.3).
const strOrderAxioms = `
(assert (forall ((a Str)) (! (not (slt a a)) :pattern ((slt a a)))))
(assert (forall ((a Str) (b Str)) (! (=> (slt a b) (not (slt b a))) :pattern ((slt a b)))))
(assert (forall ((a Str) (b Str)) (! (or (slt a b) (slt b a) (= a b)) :pattern ((slt a b)))))
(assert (forall ((a Str) (b Str) (c Str)) (! (=> (and (slt a b) (slt b c)) (slt a c)) :pattern ((slt a b) (slt b c)))))
(declare-fun lcp (Str Str) Int)
(assert (forall ((a Str) (b Str)) (! (and (<= 0 (lcp a b)) (<= (lcp a b) (len_Str a)) (<= (lcp a b) (len_Str b))) :pattern ((lcp a b)))))
(assert (forall ((a Str) (b Str) (i Int)) (! (=> (and (<= 0 i) (< i (lcp a b))) (= (at_Str a i) (at_Str b i))) :pattern ((lcp a b) (at_Str a i)))))
(assert (forall ((a Str) (b Str)) (! (=> (and (< (lcp a b) (len_Str a)) (< (lcp a b) (len_Str b))) (not (= (at_Str a (lcp a b)) (at_Str b (lcp a b))))) :pattern ((lcp a b)))))
(assert (forall ((a Str) (b Str)) (! (= (slt a b) (or (and (= (lcp a b) (len_Str a)) (< (len_Str a) (len_Str b))) (and (< (lcp a b) (len_Str a)) (< (lcp a b) (len_Str b)) (< (at_Str a (lcp a b)) (at_Str b (lcp a b)))))) :pattern ((slt a b)))))
`
