package main

// Per-function verification: set up the pre-state, execute the body, emit obligations.

import (
	"fmt"
	"go/ast"
	"go/token"
	"go/types"
	"math"
	"os"
	"regexp"
	"sort"
	"strconv"
	"strings"
)

func fpLit(f float64, s Sort) string {
	if s == "(_ FloatingPoint 8 24)" {
		b := math.Float32bits(float32(f))
		return fmt.Sprintf("(fp #b%01b #b%08b #b%023b)", b>>31, (b>>23)&0xff, b&0x7fffff)
	}
	b := math.Float64bits(f)
	return fmt.Sprintf("(fp #b%01b #b%011b #b%052b)", b>>63, (b>>52)&0x7ff, b&0xfffffffffffff)
}

type FuncResult struct {
	Key         string
	Rejected    string
	Obls        []*Obligation
	Queries     []*Query
	Warns       []string
	Assumes     []string
	SpecErrs    []string
	UsedCons    []string
	NoContract  []string
	ExternNoCon []string
	AutoFramed  []string
	Split       string
}

func (v *Verifier) newCtx(key string) (*FnCtx, error) {
	base := key
	if i := strings.Index(key, "@"); i >= 0 {
		base = key[:i] // contract variant (e.g. "@ieee"): same function, different contract and number model
	}
	fd := v.funcs[base]
	if fd == nil {
		return nil, fmt.Errorf("no such function in the loaded packages: %s", key)
	}
	pkg := v.funcPkg[base]
	con := v.specs.Contracts[key]
	if con == nil {
		con = &Contract{Key: key, Loops: map[int]*LoopSpec{}, Flags: map[string]bool{}, Asserts: map[string][]Clause{}}
	}
	c := &FnCtx{V: v, pkg: pkg, info: pkg.TypesInfo, fd: fd, key: key, con: con, decls: newDecls(),
		entry: map[string]*Val{}, loopOrd: map[ast.Node]int{}, assumes: map[string]bool{}, lits: map[string]string{},
		inputs: map[string]string{}, usedCons: map[string]bool{}, labels: map[string]int{}, nObl: map[string]int{},
		errGlobals: map[string]bool{}, boxedScalars: map[types.Object]string{}, typeTags: map[string]bool{},
		closureLits: map[types.Object]*ast.FuncLit{}, inModScan: map[*ast.FuncLit]bool{}, hiddenIdx: map[ast.Node]types.Object{},
		rangeIdx: map[ast.Node]types.Object{}, rangeLen: map[ast.Node]string{}, callOrds: map[*ast.CallExpr]int{}, mapSeqOf: map[ast.Node]*Val{},
		nocontract: map[string]bool{}, externNoCon: map[string]bool{}, inTrial: map[ast.Node]bool{}, iterExtra: map[ast.Node][]types.Object{}, autoFramed: map[string]bool{}, named: map[string]string{}, escaped: map[string]bool{}, inlining: map[string]int{}, gotoTargets: map[string]bool{}, gotoActive: map[string]bool{}}
	c.nopanic = con.Flags["nopanic"]
	c.ieee = con.Flags["ieee"]
	c.declSeq(SStr)
	// loop ordinals (pre-order over the whole declaration) and closure literal bindings
	n := 0
	nclosure := 0
	ast.Inspect(fd, func(nd ast.Node) bool {
		switch x := nd.(type) {
		case *ast.BranchStmt:
			if x.Tok == token.GOTO && x.Label != nil {
				c.gotoTargets[x.Label.Name] = true
			}
		case *ast.ForStmt, *ast.RangeStmt:
			n++
			c.loopOrd[nd] = n
		case *ast.CallExpr:
			iterating := false
			if ci := c.calleeOf(x); ci.fn != nil {
				if cc := v.specs.Contracts[typesFuncKey(ci.fn)]; cc != nil && cc.Iter != nil {
					n++
					c.loopOrd[nd] = n
					iterating = true
				}
			}
			if !iterating {
				for _, a := range x.Args {
					if fl, ok := a.(*ast.FuncLit); ok {
						nclosure++
						c.loopOrd[fl] = 1000 + nclosure
					}
				}
			}
		case *ast.AssignStmt:
			for i, r := range x.Rhs {
				// x := f(...) where f is inlined and returns a function literal
				if ce, ok := r.(*ast.CallExpr); ok && i < len(x.Lhs) {
					if ci := c.calleeOf(ce); ci.fn != nil {
						k := typesFuncKey(ci.fn)
						if cc := v.specs.Contracts[k]; cc != nil && cc.Flags["inline"] {
							if cfd := v.funcs[k]; cfd != nil && cfd.Body != nil {
								ast.Inspect(cfd.Body, func(m ast.Node) bool {
									if rs, ok := m.(*ast.ReturnStmt); ok && len(rs.Results) == 1 {
										if fl, ok := rs.Results[0].(*ast.FuncLit); ok {
											if id, ok := x.Lhs[i].(*ast.Ident); ok {
												if o := c.info.ObjectOf(id); o != nil {
													c.closureLits[o] = fl
												}
											}
										}
									}
									return true
								})
							}
						}
					}
				}
				if fl, ok := r.(*ast.FuncLit); ok && i < len(x.Lhs) {
					if id, ok := x.Lhs[i].(*ast.Ident); ok {
						if o := c.info.ObjectOf(id); o != nil {
							c.closureLits[o] = fl
						}
					}
				}
			}
		}
		return true
	})
	return c, nil
}

// verifyFunc runs one function (one split case).
func (v *Verifier) verifyFunc(key string, splitName, splitCase string, splitCond *Clause) *FuncResult {
	res := &FuncResult{Key: key, Split: splitCase}
	c, err := v.newCtx(key)
	if err != nil {
		res.Rejected = err.Error()
		return res
	}
	c.splitTag = splitCase
	curCtx = c
	defer func() { curCtx = nil }()
	fd := c.fd
	if fd.Body == nil {
		res.Rejected = "no body"
		return res
	}
	st := &State{vars: map[types.Object]*Val{}, heap: map[string]string{}, ghost: map[string]string{}}
	c.pre = &State{vars: map[types.Object]*Val{}, heap: map[string]string{}, ghost: map[string]string{}}
	c.decls.declFun("alloc0", nil, SInt)
	st.alloc = "alloc0"
	c.pre.alloc = "alloc0"
	c.decls.declFun("allocated0", []Sort{SInt}, SBool)
	c.addFact("(forall ((r Int)) (! (=> (allocated0 r) (<= r alloc0)) :pattern ((allocated0 r))))")
	c.apiOnly(fd)
	// parameters
	bindParam := func(id *ast.Ident) {
		o, _ := c.info.Defs[id].(*types.Var)
		if o == nil {
			return
		}
		val := c.havocVal(nil, o.Type(), "in_"+id.Name)
		c.paramFacts(st, val)
		if c.con.Flags["nonnil-params"] && val.S == SInt {
			if _, isPtr := o.Type().Underlying().(*types.Pointer); isPtr {
				st.assume(tNot(tEq(val.T, "0")))
			}
		}
		st.vars[o] = val
		c.pre.vars[o] = val
		c.entry[id.Name] = val
		c.params = append(c.params, o)
		if val.S != SNone {
			c.inputs[id.Name] = val.T
		}
		// callback parameters: register their ghost call traces up front so that loop havoc covers them
		if sg, ok := o.Type().Underlying().(*types.Signature); ok {
			for i := 0; i < sg.Params().Len() && i < 2; i++ {
				ps := c.sortOf(sg.Params().At(i).Type())
				if ps == SNone {
					break
				}
				gn := "calls." + id.Name
				if i == 1 {
					gn = "calls2." + id.Name
				}
				gs := seqSort(ps)
				c.declSeq(gs)
				delete(c.V.specs.GhostVars, gn)
				gv := c.traceGhost(gn, gs)
				c.ghostGet(st, gv)
			}
			delete(c.V.specs.GhostVars, "nextpos."+id.Name)
			c.ghostGet(st, c.traceGhost("nextpos."+id.Name, SInt))
			if sg.Results().Len() > 0 && c.sortOf(sg.Results().At(0).Type()) == SBool {
				delete(c.V.specs.GhostVars, "lastret."+id.Name)
				gv := c.traceGhost("lastret."+id.Name, SBool)
				c.ghostGet(st, gv)
			}
		}
	}
	if fd.Recv != nil {
		for _, f := range fd.Recv.List {
			for _, n := range f.Names {
				bindParam(n)
			}
		}
	}
	for _, f := range fd.Type.Params.List {
		for _, n := range f.Names {
			bindParam(n)
		}
	}
	sig := c.info.Defs[fd.Name].Type().(*types.Signature)
	fr := &frame{}
	if fd.Type.Results != nil {
		k := 0
		for _, f := range fd.Type.Results.List {
			if len(f.Names) == 0 {
				o := types.NewVar(fd.Pos(), c.pkg.Types, fmt.Sprintf("result%d", k), sig.Results().At(k).Type())
				st.vars[o] = c.zeroVal(o.Type())
				fr.results = append(fr.results, o)
				k++
				continue
			}
			for _, n := range f.Names {
				o := c.info.Defs[n]
				st.vars[o] = c.zeroVal(o.Type())
				fr.results = append(fr.results, o)
				k++
			}
		}
	}
	c.results = fr.results
	c.frames = []*frame{fr}
	// requires
	env := c.specEnvAt(st, fd.Body.Rbrace)
	for _, r := range c.con.Requires {
		st.assume(c.specBool(env, r.Expr))
	}
	for _, r := range c.con.EntryAssume {
		// state invariants of the surrounding system that this function relies on; not demanded from callers
		c.assumeNote("state invariant assumed on entry of " + c.key + " (not demanded from callers): " + r.Src)
		st.assume(c.specBool(env, r.Expr))
	}
	if splitCond != nil && pendingSplitCall == "" {
		st.assume(c.specBool(env, splitCond.Expr))
	}
	if splitCond != nil && pendingSplitCall != "" {
		c.splitAtCall = pendingSplitCall
		// "c1 ;; c2": conditions for successive calls whose result is not already known
		for _, part := range strings.Split(splitCond.Src, ";;") {
			part = strings.TrimSpace(part)
			at := pendingSplitCall
			if strings.HasPrefix(part, "@") {
				f := strings.SplitN(part[1:], " ", 2)
				if len(f) == 2 {
					at, part = f[0], strings.TrimSpace(f[1])
				}
			}
			e, err := parseSpecExpr(part)
			if err != nil {
				c.specErr("split case: %v", err)
				continue
			}
			c.splitConds = append(c.splitConds, Clause{Src: part, Expr: e, Label: at})
		}
	}
	c.pre.pc = append([]string(nil), st.pc...)
	// snapshot the pre-state heap/ghost lazily: heapGet records first use in c.pre too
	exits := c.execBlock(st, fd.Body.List)
	var rets []*State
	for _, ex := range exits {
		switch ex.kind {
		case exNormal, exReturn:
			rets = append(rets, c.runDefers(ex.st)...)
		case exPanic:
		default:
			c.warn("unexpected exit kind at function end")
		}
	}
	if c.rejected != "" {
		res.Rejected = c.rejected
		return res
	}
	// ensures at every return
	for ri, rs := range rets {
		envp := c.specEnvAt(rs, fd.Body.Rbrace)
		for i, e := range c.con.Ensures {
			if c.con.Flags["deterministic"] && strings.HasPrefix(e.Label, "def") {
				// `result == f(args)` with f uninterpreted *defines* f as "what this function returns"; sound because the
				// function is checked to be a function of its arguments only (syntacticPurity) and modifies nothing.
				if why := c.syntacticPurity(); why != "" {
					c.specErr("deterministic: %s is not a function of its arguments only: %s", c.key, why)
				}
				continue
			}
			if strings.HasPrefix(e.Label, "ghost-def") {
				// the clause defines how this function moves a pure ghost variable (no code reads or writes it): it is
				// part of the specification vocabulary, applied at the callers, listed as an assumption
				c.assumeNote("ghost definition (not an obligation) in " + c.key + ": " + e.Src)
				continue
			}
			t := c.specBool(envp, e.Expr)
			c.addObl(&Obligation{Name: fmt.Sprintf("%s/ensures#%s@ret%d", c.key, clauseID(e, i), ri+1), Kind: "ensures",
				Descr: "postcondition", Pos: c.pos(fd), Hyps: append([]string(nil), rs.pc...), Goal: t, Clause: e.Src})
		}
		for i, e := range c.con.AtReturn {
			t := c.specBool(envp, e.Expr)
			c.addObl(&Obligation{Name: fmt.Sprintf("%s/at-return#%s@ret%d", c.key, clauseID(e, i), ri+1), Kind: "ensures",
				Descr: "assertion at return (function scope)", Pos: c.pos(fd), Hyps: append([]string(nil), rs.pc...), Goal: t, Clause: e.Src})
		}
		// `iterates`: unless the callback said stop, no element that should have been passed remains
		if it := c.con.Iter; it != nil && it.Seq.Expr != nil {
			envR := c.specEnvAt(rs, fd.Body.Rbrace)
			S := c.specEval(envR.old, it.Seq.Expr)
			if isSeq(S.S) || S.S == SStr {
				np := c.ghostGet(rs, c.traceGhost("nextpos."+it.Param, SInt))
				last := c.ghostGet(rs, c.traceGhost("lastret."+it.Param, SBool))
				c.nfresh++
				m := fmt.Sprintf("m!q%d", c.nfresh)
				cm := "true"
				if it.When != nil {
					cm = c.specBool(envR.old.withBound("k", &Val{T: m, S: SInt}).withBound("it", &Val{T: c.seqAt(S, m), S: elemSort(S.S)}), it.When.Expr)
				}
				if it.Guard != nil {
					last = tAnd(c.specBool(envR.old, it.Guard.Expr), last)
				}
				goal := tImp(last, fmt.Sprintf("(forall ((%s Int)) (=> (and (<= %s %s) (< %s %s)) (not %s)))", m, np, m, m, c.seqLen(S), cm))
				c.addObl(&Obligation{Name: fmt.Sprintf("%s/iterates.%s/complete@ret%d", c.key, it.Param, ri+1), Kind: "iterates",
					Descr: "unless the callback said stop, every element of S (satisfying `when`) was passed", Pos: c.pos(fd), Hyps: append([]string(nil), rs.pc...), Goal: goal, Clause: "iterates " + it.Param + " seq " + it.Seq.Src})
			}
		}
		// frame: modifies nothing / declared fields only
		c.frameObligations(rs, ri)
	}
	// vacuity: some return must be reachable (only when there is a contract with obligations)
	if len(rets) > 0 && (len(c.con.Requires) > 0 || len(c.con.Ensures) > 0 || splitCond != nil) {
		var pcs []string
		for _, rs := range rets {
			pcs = append(pcs, rs.pcTerm())
		}
		c.addObl(&Obligation{Name: c.key + "/vacuity", Kind: "vacuity", Descr: "precondition and path assumptions are satisfiable (planted false must fail)",
			Hyps: nil, Goal: tNot(tOr(pcs...)), Expect: "notunsat", Timeout: 2, Only: []string{"z3-new"}})
	}
	if c.con != nil && c.con.Flags["no-merge"] {
		// path-wise exploration produces one obligation per path for the same program point: number them
		seen := map[string]int{}
		for _, o := range c.obls {
			seen[o.Name]++
			if n := seen[o.Name]; n > 1 {
				o.Name = fmt.Sprintf("%s~path%d", o.Name, n)
			}
		}
	}
	res.Obls = c.obls
	res.Warns = c.warns
	res.SpecErrs = c.specErrs
	for a := range c.assumes {
		res.Assumes = append(res.Assumes, a)
	}
	sort.Strings(res.Assumes)
	res.UsedCons = sortedKeys(c.usedCons)
	res.NoContract = sortedKeys(c.nocontract)
	res.AutoFramed = sortedKeys(c.autoFramed)
	res.ExternNoCon = sortedKeys(c.externNoCon)
	// build queries
	prelude := c.prelude()
	if os.Getenv("VCGO_STATS") != "" {
		kinds := map[string]int{}
		for _, o := range c.obls {
			kinds[o.Kind]++
		}
		fmt.Fprintf(os.Stderr, "STATS %s %s: %d obligations %v, %d facts, prelude %d bytes, %d fresh, %d returns\n", key, splitCase, len(c.obls), kinds, len(c.facts), len(prelude), c.nfresh, len(rets))
		return res
	}
	fnTimeout := 0
	for fl := range c.con.Flags {
		if strings.HasPrefix(fl, "timeout:") {
			fnTimeout, _ = strconv.Atoi(strings.TrimSpace(strings.TrimPrefix(fl, "timeout:")))
		}
	}
	for _, o := range c.obls {
		if fnTimeout > 0 && o.Timeout == 0 && o.Expect == "" {
			o.Timeout = fnTimeout // `timeout N` in the contract: obligations of this function are known to need longer
		}
		if c.ieee && o.Expect == "" && o.Timeout == 0 {
			// IEEE-754 obligations: only cvc5 decides them here (z3 4.8 and 5.1 time out), in about a minute
			o.Timeout = 240
			o.Only = []string{"cvc5"}
		}
		q := &Query{Name: o.Name, Kind: o.Kind, Func: c.key, Descr: o.Descr, Pos: o.Pos, Expect: o.Expect, Only: o.Only, Timeout: o.Timeout}
		if q.Expect == "" {
			q.Expect = "unsat"
		}
		var b strings.Builder
		b.WriteString(c.preludeFor(prelude, o))
		for _, h := range o.Hyps {
			fmt.Fprintf(&b, "(assert %s)\n", h)
		}
		fmt.Fprintf(&b, "(assert (not %s))\n(check-sat)\n", o.Goal)
		if q.Expect == "unsat" {
			b.WriteString("(get-model)\n")
		}
		q.Text = b.String()
		q.obl = o
		o.Hyps = nil
		q.spill()
		res.Queries = append(res.Queries, q)
	}
	return res
}

// verifyLemma proves a lemma from the axioms/lemmas it names.
func (v *Verifier) verifyLemma(ax *Axiom) *FuncResult {
	key := "lemma." + ax.Name
	res := &FuncResult{Key: key}
	c := &FnCtx{V: v, key: key, con: &Contract{Key: key, Loops: map[int]*LoopSpec{}, Flags: map[string]bool{}, Asserts: map[string][]Clause{}, Lemmas: ax.Uses}, decls: newDecls(),
		entry: map[string]*Val{}, loopOrd: map[ast.Node]int{}, assumes: map[string]bool{}, lits: map[string]string{},
		inputs: map[string]string{}, usedCons: map[string]bool{}, labels: map[string]int{}, nObl: map[string]int{},
		errGlobals: map[string]bool{}, boxedScalars: map[types.Object]string{}, typeTags: map[string]bool{},
		nocontract: map[string]bool{}, externNoCon: map[string]bool{}, inTrial: map[ast.Node]bool{}, iterExtra: map[ast.Node][]types.Object{}, autoFramed: map[string]bool{}, named: map[string]string{}, escaped: map[string]bool{}, inlining: map[string]int{}, gotoTargets: map[string]bool{}, gotoActive: map[string]bool{}}
	if len(c.con.Lemmas) == 0 {
		c.con.Lemmas = []string{"-none-"}
	}
	c.pre = &State{vars: map[types.Object]*Val{}, heap: map[string]string{}, ghost: map[string]string{}}
	c.declSeq(SStr)
	env := &SpecEnv{c: c, st: c.pre, lookup: func(string) *Val { return nil }}
	env.old = env
	goal := c.specBool(env, ax.Clause.Expr)
	c.addObl(&Obligation{Name: key, Kind: "lemma", Descr: "lemma follows from " + strings.Join(ax.Uses, ", "), Pos: ax.Clause.Line, Goal: goal, Clause: ax.Clause.Src})
	c.addObl(&Obligation{Name: key + "/axioms-consistent", Kind: "vacuity", Descr: "the axioms the lemma uses are not contradictory", Pos: ax.Clause.Line, Goal: "false", Expect: "notunsat", Timeout: 5, Only: []string{"z3-new", "cvc5"}})
	res.Obls = c.obls
	res.SpecErrs = c.specErrs
	prelude := c.prelude()
	for _, o := range c.obls {
		q := &Query{Name: o.Name, Kind: o.Kind, Func: key, Descr: o.Descr, Pos: o.Pos, Expect: "unsat", obl: o, Only: o.Only, Timeout: o.Timeout}
		if o.Expect != "" {
			q.Expect = o.Expect
		}
		q.Text = prelude + fmt.Sprintf("(assert (not %s))\n(check-sat)\n", o.Goal)
		res.Queries = append(res.Queries, q)
	}
	return res
}

// paramFacts: well-formedness of inputs
func (c *FnCtx) paramFacts(st *State, v *Val) {
	if v.S == SInt && v.Typ != nil {
		if lo, hi, ok := intRange(v.Typ); ok {
			if b, isb := v.Typ.Underlying().(*types.Basic); isb && b.Info()&types.IsInteger != 0 {
				st.assume(fmt.Sprintf("(and (<= %s %s) (<= %s %s))", lo, v.T, v.T, hi))
			}
		}
		switch v.Typ.Underlying().(type) {
		case *types.Pointer, *types.Interface, *types.Map, *types.Chan, *types.Signature:
			c.decls.declFun("allocated0", []Sort{SInt}, SBool)
			st.assume(tAnd(tApp(">=", v.T, "0"), tOr(tEq(v.T, "0"), tApp("allocated0", v.T))))
		}
	}
	if v.S == SNone {
		for _, f := range v.Fields {
			c.paramFacts(st, f)
		}
	}
}

// frameObligations: with `modifies nothing`, every heap array must be unchanged at return.
func (c *FnCtx) frameObligations(rs *State, ri int) {
	if !c.con.Flags["modifies-nothing"] && len(c.con.Modifies) == 0 {
		return
	}
	if c.con.ModAll {
		return
	}
	allowed := map[string][]string{} // heap key -> refs allowed to change
	envp := c.specEnvAt(c.pre, c.fd.Body.Rbrace)
	ghostsAllowed := map[string]bool{}
	for _, m := range c.con.Modifies {
		switch x := m.Expr.(type) {
		case *ast.Ident:
			if _, ok := c.V.specs.GhostVars[x.Name]; ok {
				ghostsAllowed[x.Name] = true
				continue
			}
			if v := envp.lookup(x.Name); v != nil && v.Typ != nil {
				ms := newModSet()
				c.addHeapKeys(typeShortName(v.Typ), "", elemOfPtr(v.Typ), ms)
				ref := v.T
				if v.Box != "" {
					ref = v.Box
				}
				for k := range ms.heap {
					allowed[k] = append(allowed[k], ref)
				}
			}
		case *ast.StarExpr:
			p := c.specEval(envp, x.X)
			if p.Typ != nil {
				if pt, ok := p.Typ.Underlying().(*types.Pointer); ok {
					if es := c.sortOf(pt.Elem()); es != SNone {
						k := c.ptrKey(pt.Elem())
						allowed[k] = append(allowed[k], p.T)
					} else {
						ms := newModSet()
						c.addHeapKeys(typeShortName(pt.Elem()), "", pt.Elem(), ms)
						for k := range ms.heap {
							allowed[k] = append(allowed[k], p.T)
						}
					}
				}
			}
		case *ast.SelectorExpr:
			base := c.specEval(envp, x.X)
			if base.Typ != nil {
				if stt, _ := structOf(base.Typ); stt != nil {
					for i := 0; i < stt.NumFields(); i++ {
						if f := stt.Field(i); f.Name() == x.Sel.Name {
							ms := newModSet()
							c.addHeapKeys(typeShortName(base.Typ), f.Name(), f.Type(), ms)
							for k := range ms.heap {
								allowed[k] = append(allowed[k], base.T)
							}
						}
					}
				}
			}
		}
	}
	keys := sortedKeys(rs.heap)
	if c.con.Flags["frame-by-effects"] {
		keys = nil // the heap frame of this function is the inferred one; only ghosts are checked here
	}
	for _, k := range keys {
		cur := rs.heap[k]
		pre, ok := c.pre.heap[k]
		if !ok {
			pre = "H_" + sanitizeSym(k)
		}
		if cur == pre {
			continue
		}
		var goal string
		if refs, ok := allowed[k]; ok {
			var ne []string
			for _, ref := range refs {
				ne = append(ne, tNot(tEq("r", ref)))
			}
			goal = fmt.Sprintf("(forall ((r Int)) (=> (and %s (allocated0 r)) (= (select %s r) (select %s r))))", tAnd(ne...), cur, pre)
		} else {
			goal = fmt.Sprintf("(forall ((r Int)) (=> (allocated0 r) (= (select %s r) (select %s r))))", cur, pre)
		}
		c.decls.declFun("allocated0", []Sort{SInt}, SBool)
		c.addObl(&Obligation{Name: fmt.Sprintf("%s/frame.%s@ret%d", c.key, k, ri+1), Kind: "frame", Descr: "only the declared locations change: " + k,
			Pos: c.pos(c.fd), Hyps: append([]string(nil), rs.pc...), Goal: goal, Clause: "modifies"})
	}
	for _, g := range c.V.specs.GVOrder {
		cur, ok := rs.ghost[g]
		if !ok || ghostsAllowed[g] || c.V.specs.GhostVars[g].Scratch {
			continue
		}
		pre := c.pre.ghost[g]
		if pre == "" {
			if gv := c.V.specs.GhostVars[g]; gv != nil {
				pre = c.ghostGet(c.pre, gv)
			}
		}
		if strings.HasPrefix(g, "calls.") || strings.HasPrefix(g, "calls2.") || strings.HasPrefix(g, "lastret.") || strings.HasPrefix(g, "nextpos.") {
			continue // the trace of the function's own callback parameters is specified by the postconditions
		}
		if cur == pre {
			continue
		}
		c.addObl(&Obligation{Name: fmt.Sprintf("%s/frame.ghost.%s@ret%d", c.key, g, ri+1), Kind: "frame", Descr: "ghost " + g + " unchanged",
			Pos: c.pos(c.fd), Hyps: append([]string(nil), rs.pc...), Goal: tEq(cur, pre), Clause: "modifies"})
	}
}

// prelude: declarations, axioms, facts.
func (c *FnCtx) prelude() string {
	var b strings.Builder
	// spec axioms (evaluate first: may add declarations)
	var axs []string
	use := map[string]bool{}
	for _, l := range c.con.Lemmas {
		use[l] = true
	}
	for _, ax := range c.V.specs.Axioms {
		if !use[ax.Name] && !use["*"] && !strings.HasPrefix(ax.Name, "auto.") {
			continue
		}
		env := &SpecEnv{c: c, st: c.pre, lookup: func(string) *Val { return nil }}
		env.old = env
		kind := "axiom"
		if ax.Lemma {
			kind = "lemma"
		}
		axs = append(axs, "; "+kind+" "+ax.Name+"\n(assert "+c.specBool(env, ax.Clause.Expr)+")")
		c.usedAxioms = append(c.usedAxioms, ax.Name)
	}
	for _, so := range append([]string(nil), c.decls.sortsO...) {
		if so == "Str" || strings.HasPrefix(so, "Seq_") {
			c.declSeq(Sort(so))
		}
	}
	b.WriteString("(set-option :produce-models true)\n(set-logic ALL)\n")
	b.WriteString(c.decls.text())
	if c.needStrOrder {
		b.WriteString(strOrderDecl)
	}
	// sequence axioms for every declared sequence sort
	for _, s := range c.decls.sortsO {
		if s == "Str" || strings.HasPrefix(s, "Seq_") {
			for _, a := range seqAxioms(Sort(s)) {
				fmt.Fprintf(&b, "(assert %s)\n", a)
			}
			if s != "Str" && c.con != nil && c.con.Flags["forward-seq"] {
				// forward instantiation: a known index of a sequence is also looked at in its sub-sequences (in-place
				// removal loops need the witnesses of the old sequence carried over to the new one)
				n := sortName(Sort(s))
				fmt.Fprintf(&b, "(assert (forall ((s %s) (a Int) (b Int) (k Int)) (! (=> (and (<= 0 a) (<= a k) (< k b) (<= b (len_%s s))) (= (at_%s (sub_%s s a b) (- k a)) (at_%s s k))) :pattern ((sub_%s s a b) (at_%s s k)))))\n", s, n, n, n, n, n, n)
				es := elemSort(Sort(s))
				fmt.Fprintf(&b, "(assert (forall ((s %s) (x %s)) (! (= (at_%s (app1_%s s x) (len_%s s)) x) :pattern ((app1_%s s x)))))\n", s, es, n, n, n, n)
				fmt.Fprintf(&b, "(assert (forall ((s %s) (x %s) (k Int)) (! (=> (and (<= 0 k) (< k (len_%s s))) (= (at_%s (app1_%s s x) k) (at_%s s k))) :pattern ((app1_%s s x) (at_%s s k)))))\n", s, es, n, n, n, n, n, n)
			}
		}
	}
	if c.needStrOrder {
		b.WriteString(strOrderAxioms)
	}
	for _, f := range c.litFacts() {
		fmt.Fprintf(&b, "(assert %s)\n", f)
	}
	// error sentinels
	eg := sortedKeys(c.errGlobals)
	for _, g := range eg {
		fmt.Fprintf(&b, "(assert (> %s 0))\n", g)
	}
	if len(eg) > 1 {
		fmt.Fprintf(&b, "(assert (distinct %s))\n", strings.Join(eg, " "))
	}
	// a scalar boxed into an interface is never one of the package-level interface/pointer constants
	var boxes, globs []string
	for _, n := range c.decls.order {
		if strings.HasPrefix(n, "box_") && !strings.Contains(n, "!") && !strings.Contains(c.decls.funs[n], " () ") {
			boxes = append(boxes, n)
		} else if strings.HasPrefix(n, "G_") && strings.HasSuffix(c.decls.funs[n], "() Int)") {
			globs = append(globs, n)
		}
	}
	for _, bx := range boxes {
		d := c.decls.funs[bx] // (declare-fun box_S (S) Int)
		i := strings.Index(d, "(")
		j := strings.Index(d[i+1:], "(")
		k := strings.Index(d[i+1+j:], ")")
		argSort := d[i+1+j+1 : i+1+j+k]
		fmt.Fprintf(&b, "(assert (forall ((x %s)) (! (> (%s x) 0) :pattern ((%s x)))))\n", argSort, bx, bx)
		for _, g := range globs {
			fmt.Fprintf(&b, "(assert (forall ((x %s)) (! (not (= (%s x) %s)) :pattern ((%s x)))))\n", argSort, bx, g, bx)
		}
	}
	tt := sortedKeys(c.typeTags)
	if len(tt) > 1 {
		fmt.Fprintf(&b, "(assert (distinct %s))\n", strings.Join(tt, " "))
	}
	for _, d := range c.ghostDefs {
		fmt.Fprintf(&b, "(assert %s)\n", d)
	}
	for _, a := range axs {
		b.WriteString(a + "\n")
	}
	b.WriteString("; ---facts---\n")
	for _, f := range c.facts {
		fmt.Fprintf(&b, "(assert %s)\n", f)
	}
	return b.String()
}

const strOrderDecl = "(declare-fun slt (Str Str) Bool)\n"

// Lexicographic byte order on Str, axiomatised by witness introduction (DESIGN §3.3).
const strOrderAxioms = `
(assert (forall ((a Str)) (! (not (slt a a)) :pattern ((slt a a)))))
(assert (forall ((a Str) (b Str)) (! (=> (slt a b) (not (slt b a))) :pattern ((slt a b)))))
(assert (forall ((a Str) (b Str)) (! (or (slt a b) (slt b a) (= a b)) :pattern ((slt a b)))))
(assert (forall ((a Str) (b Str) (c Str)) (! (=> (and (slt a b) (slt b c)) (slt a c)) :pattern ((slt a b) (slt b c)))))
(declare-fun lcp (Str Str) Int)
(assert (forall ((a Str) (b Str)) (! (and (<= 0 (lcp a b)) (<= (lcp a b) (len_Str a)) (<= (lcp a b) (len_Str b))) :pattern ((lcp a b)))))
(assert (forall ((a Str) (b Str) (i Int)) (! (=> (and (<= 0 i) (< i (lcp a b))) (= (at_Str a i) (at_Str b i))) :pattern ((lcp a b) (at_Str a i)))))
(assert (forall ((a Str) (b Str)) (! (=> (and (< (lcp a b) (len_Str a)) (< (lcp a b) (len_Str b))) (not (= (at_Str a (lcp a b)) (at_Str b (lcp a b))))) :pattern ((lcp a b)))))
(assert (forall ((a Str) (b Str)) (! (= (slt a b) (or (and (= (lcp a b) (len_Str a)) (< (len_Str a) (len_Str b))) (and (< (lcp a b) (len_Str a)) (< (lcp a b) (len_Str b)) (< (at_Str a (lcp a b)) (at_Str b (lcp a b)))))) :pattern ((slt a b)))))
`

// syntacticPurity returns "" when the body reads nothing but its parameters, locals and constants and calls only
// builtins, conversions and other functions flagged deterministic.
func (c *FnCtx) syntacticPurity() string {
	why := ""
	ast.Inspect(c.fd.Body, func(n ast.Node) bool {
		if why != "" {
			return false
		}
		switch x := n.(type) {
		case *ast.GoStmt, *ast.DeferStmt, *ast.SendStmt, *ast.SelectStmt, *ast.FuncLit:
			why = fmt.Sprintf("%T at %s", n, c.pos(n))
		case *ast.StarExpr:
			why = "pointer dereference at " + c.pos(n)
		case *ast.SelectorExpr:
			if sel := c.info.Selections[x]; sel != nil && sel.Kind() == types.FieldVal {
				if _, isPtr := sel.Recv().Underlying().(*types.Pointer); isPtr {
					why = "heap read at " + c.pos(n)
				}
			}
		case *ast.Ident:
			if v, ok := c.info.Uses[x].(*types.Var); ok && v.Pkg() != nil && v.Parent() == v.Pkg().Scope() {
				why = "package variable " + x.Name
			}
		case *ast.CallExpr:
			ci := c.calleeOf(x)
			if ci.conv || ci.builtin != "" {
				return true
			}
			if ci.fn != nil {
				if cc := c.V.specs.Contracts[typesFuncKey(ci.fn)]; cc != nil && (cc.Flags["deterministic"] || cc.Flags["pure-extern"]) {
					return true
				}
			}
			why = "call at " + c.pos(n)
		}
		return true
	})
	return why
}

// apiOnly: `api-only PKG name, name, ...` — a frame condition on what the body (closures included) may use of a
// package: every function or method of PKG that is referenced, called or taken as a value, is in the list. Decided on
// the typed syntax tree; one obligation per directive, failing with the offending names.
func (c *FnCtx) apiOnly(fd *ast.FuncDecl) {
	for fl := range c.con.Flags {
		if !strings.HasPrefix(fl, "api-only:") {
			continue
		}
		rest := strings.TrimSpace(strings.TrimPrefix(fl, "api-only:"))
		sp := strings.SplitN(rest, " ", 2)
		if len(sp) != 2 {
			c.specErr("api-only PKG name, name, ...")
			continue
		}
		pkg := sp[0]
		allowed := map[string]bool{}
		for _, n := range strings.Split(sp[1], ",") {
			allowed[strings.TrimSpace(n)] = true
		}
		bad := map[string]bool{}
		ast.Inspect(fd.Body, func(n ast.Node) bool {
			id, ok := n.(*ast.Ident)
			if !ok {
				return true
			}
			fn, ok := c.info.Uses[id].(*types.Func)
			if !ok || fn.Pkg() == nil || fn.Pkg().Name() != pkg {
				return true
			}
			short := strings.TrimPrefix(typesFuncKey(fn), pkg+".")
			if !allowed[short] {
				bad[short] = true
			}
			return true
		})
		var names []string
		for n := range bad {
			names = append(names, n)
		}
		sort.Strings(names)
		goal := "true"
		if len(names) > 0 {
			goal = "false"
		}
		c.addObl(&Obligation{Name: fmt.Sprintf("%s/api-only.%s", c.key, pkg), Kind: "frame", Descr: "only the listed functions of package " + pkg + " are used; not listed: " + strings.Join(names, ", "),
			Pos: c.pos(fd), Goal: goal, Clause: "api-only " + rest})
	}
}

var reSym = regexp.MustCompile(`[A-Za-z_][A-Za-z0-9_.]*![0-9]+`)

// preludeFor drops the definitional facts about fresh constants the obligation cannot depend on
// (cone of influence over the `name!N` symbols); declarations, axioms and literal facts are kept.
func (c *FnCtx) preludeFor(prelude string, o *Obligation) string {
	if len(c.facts) < 200 {
		return prelude
	}
	if c.factSyms == nil {
		c.factSyms = make([][]string, len(c.facts))
		c.symFacts = map[string][]int{}
		for i, f := range c.facts {
			syms := uniq(reSym.FindAllString(f, -1))
			c.factSyms[i] = syms
			for _, s := range syms {
				c.symFacts[s] = append(c.symFacts[s], i)
			}
		}
		// split the prelude once: head (declarations + axioms) and the facts part
		marker := "; ---facts---\n"
		if i := strings.Index(prelude, marker); i >= 0 {
			c.preludeHead = prelude[:i]
		} else {
			c.preludeHead = prelude
		}
	}
	seen := map[string]bool{}
	var work []string
	add := func(t string) {
		for _, s := range reSym.FindAllString(t, -1) {
			if !seen[s] {
				seen[s] = true
				work = append(work, s)
			}
		}
	}
	for _, h := range o.Hyps {
		add(h)
	}
	add(o.Goal)
	keep := map[int]bool{}
	for len(work) > 0 {
		s := work[len(work)-1]
		work = work[:len(work)-1]
		for _, fi := range c.symFacts[s] {
			if !keep[fi] {
				keep[fi] = true
				for _, s2 := range c.factSyms[fi] {
					if !seen[s2] {
						seen[s2] = true
						work = append(work, s2)
					}
				}
			}
		}
	}
	var b strings.Builder
	b.WriteString(c.preludeHead)
	for i, f := range c.facts {
		if keep[i] || len(c.factSyms[i]) == 0 {
			fmt.Fprintf(&b, "(assert %s)\n", f)
		}
	}
	return b.String()
}

func uniq(xs []string) []string {
	m := map[string]bool{}
	var out []string
	for _, x := range xs {
		if !m[x] {
			m[x] = true
			out = append(out, x)
		}
	}
	return out
}
