package main

// Symbolic execution of statements.

import (
	"fmt"
	"go/ast"
	"go/token"
	"go/types"
)

func (c *FnCtx) oblig(st *State, kind, descr string, at ast.Node, goal string, clause string) {
	if goal == "true" {
		// still count trivially true obligations? no: they carry no information
		return
	}
	c.nObl[kind]++
	name := fmt.Sprintf("%s/%s#%d", c.key, kind, c.nObl[kind])
	c.addObl(&Obligation{Name: name, Kind: kind, Descr: descr, Pos: c.pos(at), Hyps: append([]string(nil), st.pc...), Goal: goal, Clause: clause})
}

func (c *FnCtx) addObl(o *Obligation) {
	if c.splitTag != "" {
		o.Name += "[" + c.splitTag + "]"
	}
	if o.Inputs == nil {
		o.Inputs = c.inputs
	}
	c.obls = append(c.obls, o)
}

func (c *FnCtx) execBlock(st *State, stmts []ast.Stmt) []Exit {
	live := []*State{st}
	var exits []Exit
	for si, s := range stmts {
		if len(live) == 0 {
			break
		}
		// `L: stmt ... goto L` (backward goto to a label in this block): the statements from the label to the end of the
		// block form a loop without invariant: everything they modify is havoced, one pass is executed, the goto ends the path
		if ls, ok := s.(*ast.LabeledStmt); ok && c.gotoTargets[ls.Label.Name] && !c.gotoActive[ls.Label.Name] {
			ms := newModSet()
			for _, r := range stmts[si:] {
				c.collectMods(r, ms)
			}
			c.gotoActive[ls.Label.Name] = true
			var next []*State
			for _, l := range live {
				c.havoc(l, ms, "goto_"+ls.Label.Name)
				for _, ex := range c.execBlock(l, stmts[si:]) {
					switch {
					case ex.kind == exGoto && ex.label == ls.Label.Name:
						// back edge: covered by the havoc
					case ex.kind == exNormal:
						next = append(next, ex.st)
					default:
						exits = append(exits, ex)
					}
				}
			}
			delete(c.gotoActive, ls.Label.Name)
			live = c.mergeStates(next)
			break
		}
		var next []*State
		for _, l := range live {
			for _, ex := range c.exec(l, s) {
				if ex.kind == exNormal {
					next = append(next, ex.st)
				} else {
					exits = append(exits, ex)
				}
			}
		}
		live = c.mergeStates(next)
		if len(live) > 64 {
			c.warn("more than 64 live states after %s", c.pos(s))
		}
	}
	for _, l := range live {
		exits = append(exits, Exit{kind: exNormal, st: l})
	}
	return exits
}

func normal(st *State) []Exit { return []Exit{{kind: exNormal, st: st}} }

func (c *FnCtx) exec(st *State, s ast.Stmt) []Exit {
	if c.rejected != "" {
		return nil
	}
	if n := len(st.pc); n > 0 && st.pc[n-1] == "false" {
		return nil // infeasible path
	}
	switch x := s.(type) {
	case *ast.BlockStmt:
		return c.execBlock(st, x.List)
	case *ast.EmptyStmt:
		return normal(st)
	case *ast.ExprStmt:
		if call, ok := x.X.(*ast.CallExpr); ok {
			if id, ok := call.Fun.(*ast.Ident); ok && id.Name == "panic" {
				if _, isB := c.info.Uses[id].(*types.Builtin); isB {
					for _, a := range call.Args {
						c.eval(st, a)
					}
					if c.nopanic && !c.con.Flags["allow-explicit-panic"] {
						c.oblig(st, "panic", "explicit panic unreachable", x, "false", "")
					}
					return []Exit{{kind: exPanic, st: st}}
				}
			}
			c.evalCall(st, call)
			if c.diverged(st) {
				return nil
			}
			return normal(st)
		}
		c.eval(st, x.X)
		return normal(st)
	case *ast.AssignStmt:
		c.execAssign(st, x)
		return normal(st)
	case *ast.IncDecStmt:
		cur := c.eval(st, x.X)
		d := "+"
		if x.Tok == token.DEC {
			d = "-"
		}
		nv := c.wrapInt(&Val{T: tApp(d, cur.T, "1"), S: cur.S, Typ: cur.Typ})
		if cur.S == SReal {
			nv = &Val{T: tApp(d, cur.T, "1.0"), S: SReal, Typ: cur.Typ}
		}
		c.assignTo(st, x.X, nv)
		return normal(st)
	case *ast.DeclStmt:
		gd, ok := x.Decl.(*ast.GenDecl)
		if !ok || gd.Tok != token.VAR {
			return normal(st)
		}
		for _, sp := range gd.Specs {
			vs := sp.(*ast.ValueSpec)
			if len(vs.Values) == 1 && len(vs.Names) > 1 {
				rs := c.evalMulti(st, vs.Values[0], len(vs.Names))
				for i, n := range vs.Names {
					c.declare(st, n, rs[i])
				}
				continue
			}
			for i, n := range vs.Names {
				var v *Val
				if i < len(vs.Values) {
					v = c.copyVal(st, c.eval(st, vs.Values[i]))
					if o := c.info.Defs[n]; o != nil && v.S != SNone {
						v = c.coerce(&Val{T: v.T, S: v.S, Typ: o.Type(), Fn: v.Fn, FnObj: v.FnObj, Recv: v.Recv}, c.sortOf(o.Type()))
					}
				} else if o := c.info.Defs[n]; o != nil {
					v = c.zeroVal(o.Type())
				}
				c.declare(st, n, v)
			}
		}
		return normal(st)
	case *ast.IfStmt:
		return c.execIf(st, x)
	case *ast.ForStmt:
		return c.execFor(st, x, "")
	case *ast.RangeStmt:
		return c.execRange(st, x, "")
	case *ast.SwitchStmt:
		return c.execSwitch(st, x, "")
	case *ast.TypeSwitchStmt:
		return c.execTypeSwitch(st, x, "")
	case *ast.LabeledStmt:
		c.atLabel(st, x.Label.Name)
		switch in := x.Stmt.(type) {
		case *ast.ForStmt:
			return c.execFor(st, in, x.Label.Name)
		case *ast.RangeStmt:
			return c.execRange(st, in, x.Label.Name)
		case *ast.SwitchStmt:
			return c.execSwitch(st, in, x.Label.Name)
		case *ast.TypeSwitchStmt:
			return c.execTypeSwitch(st, in, x.Label.Name)
		}
		return c.exec(st, x.Stmt)
	case *ast.BranchStmt:
		lab := ""
		if x.Label != nil {
			lab = x.Label.Name
		}
		switch x.Tok {
		case token.BREAK:
			return []Exit{{kind: exBreak, label: lab, st: st}}
		case token.CONTINUE:
			return []Exit{{kind: exContinue, label: lab, st: st}}
		case token.FALLTHROUGH:
			return []Exit{{kind: exFallthrough, st: st}}
		}
		if x.Tok == token.GOTO && c.gotoTargets[lab] {
			return []Exit{{kind: exGoto, label: lab, st: st}}
		}
		c.rejected = "goto at " + c.pos(x)
		return nil
	case *ast.ReturnStmt:
		return c.execReturn(st, x)
	case *ast.DeferStmt:
		d := &Deferred{call: x.Call}
		if fl, ok := x.Call.Fun.(*ast.FuncLit); ok {
			d.lit = fl
		} else {
			// evaluate receiver/args now
			if se, ok := x.Call.Fun.(*ast.SelectorExpr); ok {
				if sel := c.info.Selections[se]; sel != nil && sel.Kind() == types.MethodVal {
					d.recv = c.eval(st, se.X)
				}
			}
			for _, a := range x.Call.Args {
				d.args = append(d.args, c.eval(st, a))
			}
		}
		st.defers = append(append([]*Deferred(nil), st.defers...), d)
		return normal(st)
	case *ast.GoStmt:
		c.assumeNote("go statements start another thread whose effects are not part of the spawning function's contract (" + c.pos(x) + ")")
		if fl, ok := x.Call.Fun.(*ast.FuncLit); ok && c.con != nil && c.con.Flags["threads-inline"] {
			// the thread's body is verified in place, from the state at the spawn (it holds no lock and knows nothing
			// about lock-protected state that the interference model does not also give it); the spawner goes on
			// with its own state
			_ = fl
			th := st.clone()
			c.evalCall(th, x.Call)
			return normal(st)
		}
		// arguments are evaluated in the current goroutine
		for _, a := range x.Call.Args {
			c.eval(st, a)
		}
		return normal(st)
	case *ast.SendStmt:
		c.eval(st, x.Value)
		c.assumeNote("channel operations are not modelled (" + c.pos(x) + ")")
		return normal(st)
	case *ast.SelectStmt:
		c.rejected = "select at " + c.pos(x)
		return nil
	}
	c.rejected = fmt.Sprintf("unsupported statement %T at %s", s, c.pos(s))
	return nil
}

// diverged: a callee with `ensures false` (log.Fatal, os.Exit, panic helpers)
func (c *FnCtx) diverged(st *State) bool {
	for _, p := range st.pc {
		if p == "false" {
			return true
		}
	}
	return false
}

// nilTo: the untyped nil assigned to a slice/string-sorted location is the empty sequence
func (c *FnCtx) nilTo(v *Val, t types.Type) *Val {
	if v != nil && v.S == SInt && v.T == "0" && t != nil {
		if ns := c.sortOf(t); ns == SStr || isSeq(ns) {
			return c.zeroVal(t)
		}
	}
	return v
}

func (c *FnCtx) declare(st *State, id *ast.Ident, v *Val) {
	if id.Name == "_" || v == nil {
		return
	}
	if o := c.info.Defs[id]; o != nil {
		v = c.nilTo(v, o.Type())
	}
	obj := c.info.Defs[id]
	if obj == nil {
		obj = c.info.Uses[id]
	}
	if obj == nil {
		return
	}
	if v.Typ == nil || !types.Identical(v.Typ, obj.Type()) {
		v = &Val{T: v.T, S: v.S, Typ: obj.Type(), Fields: v.Fields, Box: v.Box, Fn: v.Fn, FnObj: v.FnObj, Recv: v.Recv, Ext: v.Ext}
		if ns := c.sortOf(obj.Type()); ns != v.S && ns != SNone && v.S != SNone {
			v = c.coerce(v, ns)
			v.S = ns
		}
	}
	st.vars[obj] = v
}

func (c *FnCtx) evalMulti(st *State, e ast.Expr, n int) []*Val {
	switch x := e.(type) {
	case *ast.ParenExpr:
		return c.evalMulti(st, x.X, n)
	case *ast.CallExpr:
		rs := c.evalCall(st, x)
		for len(rs) < n {
			rs = append(rs, c.havocVal(st, nil, "res"))
		}
		return rs
	case *ast.IndexExpr: // v, ok := m[k]
		if mt, ok := c.typeOf(x.X).Underlying().(*types.Map); ok {
			m := c.eval(st, x.X)
			k := c.eval(st, x.Index)
			v, present := c.mapLoad(st, m, mt, k)
			return []*Val{v, {T: present, S: SBool, Typ: types.Typ[types.Bool]}}
		}
	case *ast.TypeAssertExpr: // v, ok := x.(T)
		v := c.eval(st, x.X)
		t := c.typeOf(x.Type)
		okv := c.dynTypeIs(st, v, t)
		r := c.typeAssert(st, v, t)
		if r.S != SNone {
			zero := c.zeroVal(t)
			r = &Val{T: tIte(okv, r.T, zero.T), S: r.S, Typ: t}
		}
		return []*Val{r, {T: okv, S: SBool, Typ: types.Typ[types.Bool]}}
	case *ast.UnaryExpr: // v, ok := <-ch
		if x.Op == token.ARROW {
			return []*Val{c.havocVal(st, c.typeOf(x), "recv"), c.havocVal(st, types.Typ[types.Bool], "recvok")}
		}
	}
	vs := []*Val{c.eval(st, e)}
	for len(vs) < n {
		vs = append(vs, c.havocVal(st, nil, "multi"))
	}
	return vs
}

// dynTypeIs: uninterpreted dynamic type test
func (c *FnCtx) dynTypeIs(st *State, v *Val, t types.Type) string {
	c.decls.declFun("dyntype", []Sort{SInt}, SInt)
	tag := "T_" + sanitizeSym(types.TypeString(t, func(p *types.Package) string { return p.Name() }))
	c.decls.declFun(tag, nil, SInt)
	c.typeTags[tag] = true
	if _, isIface := t.Underlying().(*types.Interface); isIface {
		fn := "implements_" + tag
		c.decls.declFun(fn, []Sort{SInt}, SBool)
		return tAnd(tNot(tEq(v.T, "0")), tApp(fn, tApp("dyntype", v.T)))
	}
	return tAnd(tNot(tEq(v.T, "0")), tEq(tApp("dyntype", v.T), tag))
}

func (c *FnCtx) execAssign(st *State, x *ast.AssignStmt) {
	if x.Tok != token.ASSIGN && x.Tok != token.DEFINE {
		// op-assign
		op := map[token.Token]token.Token{token.ADD_ASSIGN: token.ADD, token.SUB_ASSIGN: token.SUB, token.MUL_ASSIGN: token.MUL,
			token.QUO_ASSIGN: token.QUO, token.REM_ASSIGN: token.REM, token.AND_ASSIGN: token.AND, token.OR_ASSIGN: token.OR,
			token.XOR_ASSIGN: token.XOR, token.SHL_ASSIGN: token.SHL, token.SHR_ASSIGN: token.SHR, token.AND_NOT_ASSIGN: token.AND_NOT}[x.Tok]
		a := c.eval(st, x.Lhs[0])
		b := c.eval(st, x.Rhs[0])
		c.assignTo(st, x.Lhs[0], c.binop(st, op, a, b, a.Typ, x))
		return
	}
	var vals []*Val
	if len(x.Rhs) == 1 && len(x.Lhs) > 1 {
		vals = c.evalMulti(st, x.Rhs[0], len(x.Lhs))
	} else {
		for _, r := range x.Rhs {
			vals = append(vals, c.copyVal(st, c.eval(st, r)))
		}
	}
	for i, l := range x.Lhs {
		if i >= len(vals) {
			break
		}
		if id, ok := l.(*ast.Ident); ok && x.Tok == token.DEFINE {
			if c.info.Defs[id] != nil {
				c.declare(st, id, vals[i])
				continue
			}
		}
		c.assignTo(st, l, vals[i])
	}
}

func (c *FnCtx) assignTo(st *State, l ast.Expr, v *Val) {
	switch x := l.(type) {
	case *ast.ParenExpr:
		c.assignTo(st, x.X, v)
	case *ast.Ident:
		if x.Name == "_" {
			return
		}
		obj := c.info.ObjectOf(x)
		if obj == nil {
			return
		}
		if vr, ok := obj.(*types.Var); ok && vr.Pkg() != nil && vr.Parent() == vr.Pkg().Scope() {
			c.warn("assignment to package-level variable %s at %s is not modelled", x.Name, c.pos(x))
			c.assumeNote("writes to package-level variables are ignored")
			return
		}
		v = c.nilTo(v, obj.Type())
		if _, isIface := obj.Type().Underlying().(*types.Interface); isIface && v != nil && v.S != SInt && v.S != SNone {
			v = c.box(v) // a scalar / string stored in an interface variable
		}
		if cur, ok := st.vars[obj]; ok && cur.S == SNone && cur.Box != "" {
			owner, path := splitOwner(cur.T)
			c.storeStruct(st, cur.Box, owner, path, cur.Typ, v)
			return
		}
		nv := &Val{T: v.T, S: v.S, Typ: obj.Type(), Fields: v.Fields, Box: v.Box, Fn: v.Fn, FnObj: v.FnObj, Recv: v.Recv}
		if ns := c.sortOf(obj.Type()); ns != v.S && ns != SNone && v.S != SNone {
			nv = c.coerce(nv, ns)
			nv.Typ = obj.Type()
		}
		if v.S == SNone && v.Box != "" {
			nv = c.copyVal(st, v)
		}
		if nv.S != SNone && len(nv.T) > 400 {
			nv = &Val{T: c.nameTerm(nv.T, nv.S, "v_"+sanitizeSym(x.Name)), S: nv.S, Typ: nv.Typ, Fn: nv.Fn, FnObj: nv.FnObj, Recv: nv.Recv}
		}
		st.vars[obj] = nv
		if ref, ok := c.boxedScalars[obj]; ok && nv.S != SNone {
			key := "ptr." + sortName(nv.S)
			h := c.heapGet(st, key, nv.S)
			st.heap[key] = tApp("store", h, ref, nv.T)
		}
	case *ast.SelectorExpr:
		sel := c.info.Selections[x]
		if sel == nil || sel.Kind() != types.FieldVal {
			c.warn("assignment to unresolved selector at %s", c.pos(x))
			return
		}
		c.assignField(st, x, sel, v)
	case *ast.IndexExpr:
		bt := c.typeOf(x.X)
		if bt == nil {
			return
		}
		if p, ok := bt.Underlying().(*types.Pointer); ok {
			bt = p.Elem()
		}
		switch u := bt.Underlying().(type) {
		case *types.Map:
			m := c.eval(st, x.X)
			k := c.eval(st, x.Index)
			c.mapStore(st, m, u, k, v)
		case *types.Slice, *types.Array:
			base := c.eval(st, x.X)
			i := c.eval(st, x.Index)
			if base.S != SStr && !isSeq(base.S) {
				return
			}
			if c.nopanic {
				c.oblig(st, "index", "index in range (store)", x, tAnd(tApp("<=", "0", i.T), tApp("<", i.T, c.seqLen(base))), "")
			}
			if v.S == SNone {
				v = c.structToRef(st, v)
			}
			n := sortName(base.S)
			ns := c.fresh("upd_"+n, base.S)
			st.assume(tEq(tApp("len_"+n, ns), c.seqLen(base)))
			fwd := ""
			if c.con != nil && c.con.Flags["forward-seq"] {
				fwd = fmt.Sprintf(" :pattern ((at_%s %s k))", n, base.T)
			}
			st.assume(fmt.Sprintf("(forall ((k Int)) (! (= (at_%s %s k) (ite (= k %s) %s (at_%s %s k))) :pattern ((at_%s %s k))%s))", n, ns, i.T, c.coerce(v, elemSort(base.S)).T, n, base.T, n, ns, fwd))
			c.assumeNote("slices are value sequences: element stores do not alias other slices sharing the backing array")
			c.assignTo(st, x.X, &Val{T: ns, S: base.S, Typ: base.Typ})
		}
	case *ast.StarExpr:
		p := c.eval(st, x.X)
		t := c.typeOf(x)
		s := c.sortOf(t)
		if s == SNone {
			c.storeStruct(st, p.T, typeShortName(t), "", t, v)
			return
		}
		key := c.ptrKey(t)
		h := c.heapGet(st, key, s)
		st.heap[key] = tApp("store", h, p.T, c.coerce(v, s).T)
	default:
		c.warn("unsupported assignment target %T at %s", l, c.pos(l))
	}
}

func (c *FnCtx) assignField(st *State, x *ast.SelectorExpr, sel *types.Selection, v *Val) {
	v = c.nilTo(v, sel.Type())
	// evaluate base, follow all but last index, then store
	base := c.eval(st, x.X)
	t := sel.Recv()
	idx := sel.Index()
	cur := base
	for n, i := range idx {
		stt, named := structOf(t)
		if stt == nil {
			return
		}
		f := stt.Field(i)
		last := n == len(idx)-1
		if !last {
			cur = c.fieldOf(st, cur, t, named, f, x)
			t = f.Type()
			continue
		}
		if _, isPtr := t.Underlying().(*types.Pointer); isPtr {
			if c.nopanic {
				c.oblig(st, "nil", "nil dereference (store ."+f.Name()+")", x, tNot(tEq(cur.T, "0")), "")
			}
			owner := typeShortName(t)
			if c.sortOf(f.Type()) == SNone {
				c.storeStruct(st, cur.T, owner, f.Name(), f.Type(), v)
			} else {
				c.storeField(st, cur.T, owner, f.Name(), f.Type(), v)
			}
			return
		}
		// struct value
		if cur.Box != "" {
			owner, path := splitOwner(cur.T)
			p := f.Name()
			if path != "" {
				p = path + "." + f.Name()
			}
			if c.sortOf(f.Type()) == SNone {
				c.storeStruct(st, cur.Box, owner, p, f.Type(), v)
			} else {
				c.storeField(st, cur.Box, owner, p, f.Type(), v)
			}
			return
		}
		// local composite: need to write into the variable's composite (copy-on-write for merges)
		c.updateLocalField(st, x.X, f.Name(), v)
	}
}

// updateLocalField sets field name of the struct-valued lvalue expression base (local variable or nested field).
func (c *FnCtx) updateLocalField(st *State, base ast.Expr, name string, v *Val) {
	cur := c.eval(st, base)
	if cur.S != SNone {
		return
	}
	nv := &Val{S: SNone, Typ: cur.Typ, Fields: map[string]*Val{}}
	for k, f := range cur.Fields {
		nv.Fields[k] = f
	}
	// make sure all fields exist (lazily zero) so merges see them
	if stt, _ := structOf(cur.Typ); stt != nil {
		for i := 0; i < stt.NumFields(); i++ {
			f := stt.Field(i)
			if _, ok := nv.Fields[f.Name()]; !ok {
				nv.Fields[f.Name()] = c.fieldOfVal(st, cur, f.Name(), f.Type())
			}
		}
	}
	nv.Fields[name] = v
	c.assignTo(st, base, nv)
}

func (c *FnCtx) execIf(st *State, x *ast.IfStmt) []Exit {
	if x.Init != nil {
		exs := c.exec(st, x.Init)
		if len(exs) != 1 || exs[0].kind != exNormal {
			return exs
		}
		st = exs[0].st
	}
	cond := c.eval(st, x.Cond)
	var exits []Exit
	tst := st.clone()
	tst.assume(cond.T)
	exits = append(exits, c.exec(tst, x.Body)...)
	est := st.clone()
	est.assume(tNot(cond.T))
	if x.Else != nil {
		exits = append(exits, c.exec(est, x.Else)...)
	} else {
		exits = append(exits, Exit{kind: exNormal, st: est})
	}
	return c.mergeExits(exits)
}

// mergeExits merges the normal exits.
func (c *FnCtx) mergeExits(exits []Exit) []Exit {
	var norm []*State
	var out []Exit
	for _, e := range exits {
		if e.kind == exNormal {
			norm = append(norm, e.st)
		} else {
			out = append(out, e)
		}
	}
	for _, s := range c.mergeStates(norm) {
		out = append(out, Exit{kind: exNormal, st: s})
	}
	return out
}

func (c *FnCtx) execSwitch(st *State, x *ast.SwitchStmt, label string) []Exit {
	if x.Init != nil {
		exs := c.exec(st, x.Init)
		if len(exs) != 1 || exs[0].kind != exNormal {
			return exs
		}
		st = exs[0].st
	}
	var tag *Val
	if x.Tag != nil {
		tag = c.eval(st, x.Tag)
	}
	type cl struct {
		cc   *ast.CaseClause
		cond string
	}
	var cls []cl
	var deflt *ast.CaseClause
	defIdx := -1
	noneBefore := "true"
	var allConds []string
	// evaluate case conditions in order on the entry state (case expressions are side-effect free in practice)
	for i, s := range x.Body.List {
		cc := s.(*ast.CaseClause)
		if cc.List == nil {
			deflt = cc
			defIdx = i
			cls = append(cls, cl{cc, ""})
			continue
		}
		var alts []string
		for _, e := range cc.List {
			ev := c.eval(st, e)
			if tag != nil {
				alts = append(alts, c.binop(st, token.EQL, tag, ev, types.Typ[types.Bool], e).T)
			} else {
				alts = append(alts, ev.T)
			}
		}
		cond := tOr(alts...)
		cls = append(cls, cl{cc, tAnd(noneBefore, cond)})
		allConds = append(allConds, cond)
		noneBefore = tAnd(noneBefore, tNot(cond))
	}
	_ = deflt
	if defIdx >= 0 {
		var neg []string
		for _, a := range allConds {
			neg = append(neg, tNot(a))
		}
		cls[defIdx].cond = tAnd(neg...)
	}
	var exits []Exit
	// states falling through into the next clause
	var ft []*State
	for i, k := range cls {
		var entry []*State
		s2 := st.clone()
		s2.assume(k.cond)
		entry = append(entry, s2)
		entry = append(entry, ft...)
		ft = nil
		for _, en := range entry {
			for _, ex := range c.execBlock(en, k.cc.Body) {
				switch {
				case ex.kind == exFallthrough:
					if i+1 < len(cls) {
						ft = append(ft, ex.st)
					}
				case ex.kind == exBreak && (ex.label == "" || ex.label == label):
					exits = append(exits, Exit{kind: exNormal, st: ex.st})
				default:
					exits = append(exits, ex)
				}
			}
		}
	}
	if defIdx < 0 {
		s2 := st.clone()
		s2.assume(noneBefore)
		exits = append(exits, Exit{kind: exNormal, st: s2})
	}
	return c.mergeExits(exits)
}

func (c *FnCtx) execTypeSwitch(st *State, x *ast.TypeSwitchStmt, label string) []Exit {
	if x.Init != nil {
		exs := c.exec(st, x.Init)
		if len(exs) != 1 || exs[0].kind != exNormal {
			return exs
		}
		st = exs[0].st
	}
	var subj ast.Expr
	var bind *ast.Ident
	switch a := x.Assign.(type) {
	case *ast.ExprStmt:
		subj = a.X.(*ast.TypeAssertExpr).X
	case *ast.AssignStmt:
		subj = a.Rhs[0].(*ast.TypeAssertExpr).X
		bind = a.Lhs[0].(*ast.Ident)
	}
	_ = bind
	v := c.eval(st, subj)
	var exits []Exit
	noneBefore := "true"
	hasDefault := false
	var defClause *ast.CaseClause
	for _, s := range x.Body.List {
		cc := s.(*ast.CaseClause)
		if cc.List == nil {
			hasDefault = true
			defClause = cc
			continue
		}
		var alts []string
		for _, e := range cc.List {
			if id, ok := e.(*ast.Ident); ok && id.Name == "nil" {
				alts = append(alts, tEq(v.T, "0"))
				continue
			}
			alts = append(alts, c.dynTypeIs(st, v, c.typeOf(e)))
		}
		cond := tOr(alts...)
		s2 := st.clone()
		s2.assume(tAnd(noneBefore, cond))
		if obj := c.info.Implicits[cc]; obj != nil {
			if len(cc.List) == 1 {
				s2.vars[obj] = c.typeAssert(s2, v, obj.Type())
			} else {
				s2.vars[obj] = v
			}
		}
		for _, ex := range c.execBlock(s2, cc.Body) {
			if ex.kind == exBreak && (ex.label == "" || ex.label == label) {
				ex = Exit{kind: exNormal, st: ex.st}
			}
			exits = append(exits, ex)
		}
		noneBefore = tAnd(noneBefore, tNot(cond))
	}
	s2 := st.clone()
	s2.assume(noneBefore)
	if hasDefault {
		if obj := c.info.Implicits[defClause]; obj != nil {
			s2.vars[obj] = v
		}
		for _, ex := range c.execBlock(s2, defClause.Body) {
			if ex.kind == exBreak && (ex.label == "" || ex.label == label) {
				ex = Exit{kind: exNormal, st: ex.st}
			}
			exits = append(exits, ex)
		}
	} else {
		exits = append(exits, Exit{kind: exNormal, st: s2})
	}
	return c.mergeExits(exits)
}

func (c *FnCtx) execReturn(st *State, x *ast.ReturnStmt) []Exit {
	fr := c.frames[len(c.frames)-1]
	if len(x.Results) == 0 {
		return []Exit{{kind: exReturn, st: st}}
	}
	var vals []*Val
	if len(x.Results) == 1 && len(fr.results) > 1 {
		vals = c.evalMulti(st, x.Results[0], len(fr.results))
	} else {
		for _, r := range x.Results {
			vals = append(vals, c.copyVal(st, c.eval(st, r)))
		}
	}
	for i, o := range fr.results {
		if i < len(vals) {
			v := c.nilTo(vals[i], o.Type())
			nv := &Val{T: v.T, S: v.S, Typ: o.Type(), Fields: v.Fields, Box: v.Box, Fn: v.Fn, FnObj: v.FnObj, Recv: v.Recv}
			if ns := c.sortOf(o.Type()); ns != v.S && ns != SNone && v.S != SNone {
				nv = c.coerce(nv, ns)
			}
			st.vars[o] = nv
		}
	}
	return []Exit{{kind: exReturn, st: st}}
}

// atLabel: contract assertions attached to a source label
func (c *FnCtx) atLabel(st *State, label string) {
	if c.con == nil {
		return
	}
	for i, cl := range c.con.Asserts[label] {
		env := c.specEnvAt(st, c.fd.Body.Rbrace)
		t := c.specBool(env, cl.Expr)
		name := fmt.Sprintf("%s/at.%s#%d", c.key, label, i+1)
		if cl.Label != "" {
			name = fmt.Sprintf("%s/at.%s#%s", c.key, label, cl.Label)
		}
		c.addObl(&Obligation{Name: name, Kind: "assert", Descr: "assert at label " + label, Hyps: append([]string(nil), st.pc...), Goal: t, Clause: cl.Src})
		st.assume(t)
	}
}
