package main

// SMT layer: sorts, terms as SMT-LIB text, declarations, solver racing.

import (
	"bytes"
	"context"
	"fmt"
	"os"
	"os/exec"
	"path/filepath"
	"sort"
	"strings"
	"sync"
	"time"
)

type Sort string

const (
	SInt  Sort = "Int"
	SBool Sort = "Bool"
	SReal Sort = "Real"
	SStr  Sort = "Str"
	SNone Sort = "" // composite (struct) or unsupported
)

func seqSort(elem Sort) Sort { return Sort("Seq_" + sortName(elem)) }
func isSeq(s Sort) bool      { return strings.HasPrefix(string(s), "Seq_") }
func arrSort(k, v Sort) Sort { return Sort(fmt.Sprintf("(Array %s %s)", k, v)) }
func isArr(s Sort) bool      { return strings.HasPrefix(string(s), "(Array ") }

// sortName gives an identifier-safe name for a sort.
func sortName(s Sort) string {
	r := strings.NewReplacer("(", "", ")", "", " ", "_")
	return r.Replace(string(s))
}

// arrParts splits "(Array K V)" into K and V.
func arrParts(s Sort) (Sort, Sort) {
	t := strings.TrimSuffix(strings.TrimPrefix(string(s), "(Array "), ")")
	// K may itself be parenthesised
	depth := 0
	for i := 0; i < len(t); i++ {
		switch t[i] {
		case '(':
			depth++
		case ')':
			depth--
		case ' ':
			if depth == 0 {
				return Sort(t[:i]), Sort(t[i+1:])
			}
		}
	}
	return SInt, SInt
}

// ---- term helpers (text based, light simplification) ----

func tAnd(xs ...string) string {
	var ys []string
	for _, x := range xs {
		if x == "true" || x == "" {
			continue
		}
		if x == "false" {
			return "false"
		}
		ys = append(ys, x)
	}
	switch len(ys) {
	case 0:
		return "true"
	case 1:
		return ys[0]
	}
	return "(and " + strings.Join(ys, " ") + ")"
}
func tOr(xs ...string) string {
	var ys []string
	for _, x := range xs {
		if x == "false" || x == "" {
			continue
		}
		if x == "true" {
			return "true"
		}
		ys = append(ys, x)
	}
	switch len(ys) {
	case 0:
		return "false"
	case 1:
		return ys[0]
	}
	return "(or " + strings.Join(ys, " ") + ")"
}
func tNot(x string) string {
	switch {
	case x == "true":
		return "false"
	case x == "false":
		return "true"
	case strings.HasPrefix(x, "(not ") && balanced(x[5:len(x)-1]):
		return x[5 : len(x)-1]
	}
	return "(not " + x + ")"
}
func balanced(s string) bool {
	d := 0
	for i := 0; i < len(s); i++ {
		switch s[i] {
		case '(':
			d++
		case ')':
			d--
			if d < 0 {
				return false
			}
		}
	}
	return d == 0
}
func tImp(a, b string) string {
	if a == "true" {
		return b
	}
	if a == "false" || b == "true" {
		return "true"
	}
	return "(=> " + a + " " + b + ")"
}
func tIte(c, a, b string) string {
	if c == "true" {
		return a
	}
	if c == "false" {
		return b
	}
	if a == b {
		return a
	}
	return "(ite " + c + " " + a + " " + b + ")"
}
func tEq(a, b string) string {
	if a == b {
		return "true"
	}
	return "(= " + a + " " + b + ")"
}
func tInt(n int64) string {
	if n < 0 {
		return fmt.Sprintf("(- %d)", -n)
	}
	return fmt.Sprintf("%d", n)
}
func tApp(f string, args ...string) string {
	if len(args) == 0 {
		return f
	}
	return "(" + f + " " + strings.Join(args, " ") + ")"
}

// ---- declarations ----

type Decls struct {
	sorts  map[string]bool
	funs   map[string]string // name -> full declaration text
	order  []string          // declaration order (names)
	sortsO []string
}

func newDecls() *Decls {
	return &Decls{sorts: map[string]bool{}, funs: map[string]string{}}
}
func (d *Decls) declSort(name string) {
	if !d.sorts[name] {
		d.sorts[name] = true
		d.sortsO = append(d.sortsO, name)
	}
}
func (d *Decls) declFun(name string, args []Sort, ret Sort) {
	if _, ok := d.funs[name]; ok {
		return
	}
	as := make([]string, len(args))
	for i, a := range args {
		as[i] = string(a)
		d.needSort(a)
	}
	d.needSort(ret)
	d.funs[name] = fmt.Sprintf("(declare-fun %s (%s) %s)", name, strings.Join(as, " "), ret)
	d.order = append(d.order, name)
}
func (d *Decls) defFun(name string, text string) {
	if _, ok := d.funs[name]; ok {
		return
	}
	d.funs[name] = text
	d.order = append(d.order, name)
}
func (d *Decls) needSort(s Sort) {
	str := string(s)
	if isArr(s) {
		k, v := arrParts(s)
		d.needSort(k)
		d.needSort(v)
		return
	}
	switch s {
	case SInt, SBool, SReal, SNone:
		return
	}
	if strings.HasPrefix(str, "(_ ") || str == "RoundingMode" {
		return
	}
	d.declSort(str)
}
func (d *Decls) text() string {
	var b strings.Builder
	for _, s := range d.sortsO {
		fmt.Fprintf(&b, "(declare-sort %s 0)\n", s)
	}
	for _, n := range d.order {
		b.WriteString(d.funs[n])
		b.WriteString("\n")
	}
	return b.String()
}

// ---- solver racing ----

type SolverResult struct {
	Status string // unsat | sat | unknown | timeout | error
	Solver string
	Secs   float64
	Output string
	All    map[string]string // per-solver status (when allSolvers)
}

type solverSpec struct {
	name string
	args func(file string, timeoutS int) []string
}

var solvers = []solverSpec{
	{"z3-new", func(f string, t int) []string { return []string{"z3-new", fmt.Sprintf("-T:%d", t), f} }},
	{"cvc5", func(f string, t int) []string {
		return []string{"cvc5", "--lang=smt2", fmt.Sprintf("--tlimit=%d", t*1000), f}
	}},
	{"z3", func(f string, t int) []string { return []string{"z3", fmt.Sprintf("-T:%d", t), f} }},
}

func parseStatus(out string) string {
	for _, ln := range strings.Split(out, "\n") {
		ln = strings.TrimSpace(ln)
		switch ln {
		case "unsat", "sat", "unknown":
			return ln
		case "timeout":
			return "timeout"
		}
		if strings.HasPrefix(ln, "(error") {
			return "error"
		}
	}
	return "error"
}

// solve races the configured solvers on the query. onlySolvers (may be nil) restricts.
// wantModel: the query text already contains (get-model) after (check-sat).
func solve(ctx context.Context, file string, timeoutS int, only []string, all bool) SolverResult {
	// staged: most obligations are decided by one solver in a fraction of a second; race all of them only
	// when the first one does not answer quickly
	if !all && len(only) == 0 && timeoutS > 3 {
		r := solveRace(ctx, file, 2, []string{"z3-new"}, false)
		if r.Status == "unsat" || r.Status == "sat" {
			return r
		}
		r2 := solveRace(ctx, file, timeoutS, nil, false)
		r2.Secs += r.Secs
		return r2
	}
	return solveRace(ctx, file, timeoutS, only, all)
}

func solveRace(ctx context.Context, file string, timeoutS int, only []string, all bool) SolverResult {
	type r struct {
		name, status, out string
		secs              float64
	}
	var use []solverSpec
	for _, s := range solvers {
		if len(only) > 0 {
			ok := false
			for _, o := range only {
				if o == s.name {
					ok = true
				}
			}
			if !ok {
				continue
			}
		}
		use = append(use, s)
	}
	cctx, cancel := context.WithCancel(ctx)
	defer cancel()
	ch := make(chan r, len(use))
	for _, s := range use {
		go func(s solverSpec) {
			t0 := time.Now()
			a := s.args(file, timeoutS)
			c := exec.CommandContext(cctx, a[0], a[1:]...)
			var buf bytes.Buffer
			c.Stdout = &buf
			c.Stderr = &buf
			done := make(chan struct{})
			go func() {
				select {
				case <-done:
				case <-time.After(time.Duration(timeoutS+5) * time.Second):
					if c.Process != nil {
						c.Process.Kill()
					}
				}
			}()
			c.Run()
			close(done)
			ch <- r{s.name, parseStatus(buf.String()), buf.String(), time.Since(t0).Seconds()}
		}(s)
	}
	res := SolverResult{Status: "unknown", All: map[string]string{}}
	var best *r
	for i := 0; i < len(use); i++ {
		x := <-ch
		res.All[x.name] = x.status
		xx := x
		if x.status == "unsat" || x.status == "sat" {
			if best == nil {
				best = &xx
				if !all {
					cancel()
					break
				}
			} else if best.status != x.status {
				res.Status = "disagree"
				res.Output = fmt.Sprintf("%s says %s, %s says %s", best.name, best.status, x.name, x.status)
				return res
			}
		} else if best == nil && res.Output == "" {
			res.Output = x.out
			res.Solver = x.name
			res.Secs = x.secs
			if x.status == "timeout" {
				res.Status = "timeout"
			}
		}
	}
	if best == nil {
		allErr := len(res.All) > 0
		for _, st := range res.All {
			if st != "error" {
				allErr = false
			}
		}
		if allErr {
			res.Status = "error"
		}
	}
	if best != nil {
		res.Status = best.status
		res.Solver = best.name
		res.Secs = best.secs
		res.Output = best.out
	}
	return res
}

// ---- query ----

type Query struct {
	Name    string // obligation name
	Kind    string
	Func    string
	Text    string // full SMT-LIB text
	Descr   string // human readable: what is asserted
	Pos     string // source position
	Expect  string // "unsat" normally; "sat?" for vacuity checks (must not be unsat)
	Result  SolverResult
	Only    []string
	Timeout int
	obl     *Obligation
	File    string
	Bytes   int
}

// spill writes the query text to disk and drops it from memory.
func (q *Query) spill() {
	if queryDir == "" || q.Text == "" {
		return
	}
	queryN++
	q.File = filepath.Join(queryDir, fmt.Sprintf("%05d_%s.smt2", queryN, sanitize(q.Name)))
	os.WriteFile(q.File, []byte(q.Text), 0o644)
	q.Bytes = len(q.Text)
	spilled += int64(q.Bytes)
	if spilled > 3<<30 {
		fmt.Fprintln(os.Stderr, "ENGINE-FAULT: more than 3 GiB of queries generated; aborting")
		os.RemoveAll(queryDir)
		os.Exit(2)
	}
	q.Text = ""
}

var spilled int64

var queryN int

var queryDir string

func runQueries(qs []*Query, timeoutS int, all bool, par int) {
	var wg sync.WaitGroup
	sem := make(chan struct{}, par)
	for i, q := range qs {
		wg.Add(1)
		sem <- struct{}{}
		go func(i int, q *Query) {
			defer wg.Done()
			defer func() { <-sem }()
			if q.File == "" {
				q.spill()
			}
			fn := q.File
			t := timeoutS
			if q.Timeout > 0 {
				t = q.Timeout
			}
			q.Result = solve(context.Background(), fn, t, q.Only, all)
		}(i, q)
	}
	wg.Wait()
}

func sanitize(s string) string {
	var b strings.Builder
	for _, c := range s {
		switch {
		case c >= 'a' && c <= 'z', c >= 'A' && c <= 'Z', c >= '0' && c <= '9', c == '.', c == '-', c == '_':
			b.WriteRune(c)
		default:
			b.WriteByte('_')
		}
	}
	r := b.String()
	if len(r) > 150 {
		r = r[:150]
	}
	return r
}

func sortedKeys[V any](m map[string]V) []string {
	ks := make([]string, 0, len(m))
	for k := range m {
		ks = append(ks, k)
	}
	sort.Strings(ks)
	return ks
}
