package main

import (
	"fmt"
	"go/ast"
	"go/token"
	"go/types"
	"sort"
	"strings"

	"golang.org/x/tools/go/packages"
)

// Val is a symbolic value.
type Val struct {
	T      string // SMT term (scalars)
	S      Sort
	Typ    types.Type
	Fields map[string]*Val // struct values (by-value structs)
	Box    string          // struct local that had its address taken: lives in the heap at this ref
	Fn     *ast.FuncLit    // function literal value
	FnObj  *types.Func     // named function value
	Recv   *Val            // bound receiver for method values
	Ext    bool            // function value produced by external code (calling it cannot touch repo state)
}

type Deferred struct {
	call *ast.CallExpr
	lit  *ast.FuncLit
	args []*Val // evaluated arguments (for non-literal deferred calls)
	recv *Val
}

type State struct {
	pc        []string
	vars      map[types.Object]*Val
	heap      map[string]string
	ghost     map[string]string
	defers    []*Deferred
	lits      map[string]string // term -> string literal constant it is known to equal
	litsOwned bool
	splitIdx  int    // number of split-at-call conditions already consumed on this path
	alloc     string // allocation frontier: every reference allocated so far by anybody is <= alloc
}

func (s *State) clone() *State {
	n := &State{pc: append([]string(nil), s.pc...), vars: make(map[types.Object]*Val, len(s.vars)), heap: make(map[string]string, len(s.heap)), ghost: make(map[string]string, len(s.ghost))}
	for k, v := range s.vars {
		n.vars[k] = v
	}
	for k, v := range s.heap {
		n.heap[k] = v
	}
	for k, v := range s.ghost {
		n.ghost[k] = v
	}
	n.defers = s.defers
	n.lits = s.lits
	n.splitIdx = s.splitIdx
	n.alloc = s.alloc
	n.litsOwned = false
	s.litsOwned = false
	return n
}

func (s *State) assume(t string) {
	if t == "true" || t == "" {
		return
	}
	s.learn(t)
	if curCtx != nil && len(t) > 600 {
		t = curCtx.nameBool(t, "pc")
	}
	s.pc = append(s.pc, t)
}

var curCtx *FnCtx

// learn records equalities/disequalities between terms and string literals (constant propagation for command
// words), so that later comparisons against literals fold to true/false and infeasible switch arms are not explored.
// Knowledge is kept per equivalence class (union-find over the terms seen in assumed equalities).
func (s *State) learn(t string) {
	for _, c := range topConjuncts(t) {
		parts := sexpArgs(c)
		if len(parts) == 2 && parts[0] == "not" {
			if ip := sexpArgs(parts[1]); len(ip) == 3 && ip[0] == "=" {
				a, b := ip[1], ip[2]
				if isLitName(b) && !isLitName(a) {
					s.put("!"+s.find(a)+"!"+b, "ne")
				} else if isLitName(a) && !isLitName(b) {
					s.put("!"+s.find(b)+"!"+a, "ne")
				}
			}
			continue
		}
		if len(parts) == 3 && parts[0] == "=>" {
			// an implication whose antecedent is decided by what is already known about literals
			if s.decided(parts[1]) == 1 {
				s.learn(parts[2])
			}
			continue
		}
		if len(parts) != 3 || parts[0] != "=" {
			continue
		}
		a, b := parts[1], parts[2]
		if len(a) > 400 || len(b) > 400 || strings.HasPrefix(a, "(ite") || strings.HasPrefix(b, "(ite") {
			continue
		}
		switch {
		case isLitName(a) && isLitName(b):
		case isLitName(b):
			s.put("="+s.find(a), b)
		case isLitName(a):
			s.put("="+s.find(b), a)
		default:
			ra, rb := s.find(a), s.find(b)
			if ra == rb {
				continue
			}
			// merge rb into ra
			s.put("^"+rb, ra)
			if l, ok := s.lits["="+rb]; ok {
				s.put("="+ra, l)
			}
			pre := "!" + rb + "!"
			var mv []string
			for k := range s.lits {
				if strings.HasPrefix(k, pre) {
					mv = append(mv, k)
				}
			}
			for _, k := range mv {
				s.put("!"+ra+"!"+k[len(pre):], "ne")
			}
		}
	}
}

// decided: 1 if the literal (dis)equality t is known to hold, -1 if known not to hold, 0 otherwise
func (s *State) decided(t string) int {
	p := sexpArgs(t)
	if len(p) == 2 && p[0] == "not" {
		return -s.decided(p[1])
	}
	if len(p) != 3 || p[0] != "=" {
		return 0
	}
	a, b := p[1], p[2]
	if isLitName(a) && !isLitName(b) {
		a, b = b, a
	}
	if !isLitName(b) || isLitName(a) {
		return 0
	}
	if l := s.litOf(a); l != "" {
		if l == b {
			return 1
		}
		return -1
	}
	if s.knownDifferent(a, b) {
		return -1
	}
	return 0
}

func (s *State) put(k, v string) {
	if s.lits == nil {
		s.lits = map[string]string{}
	} else if !s.litsOwned {
		n := make(map[string]string, len(s.lits)+1)
		for k2, v2 := range s.lits {
			n[k2] = v2
		}
		s.lits = n
	}
	s.litsOwned = true
	s.lits[k] = v
}

func (s *State) setLit(term, lit string) { s.put("="+s.find(term), lit) }

func (s *State) find(t string) string {
	for i := 0; i < 64 && s.lits != nil; i++ {
		n, ok := s.lits["^"+t]
		if !ok {
			break
		}
		t = n
	}
	return t
}

func isLitName(t string) bool { return t == "empty_Str" || strings.HasPrefix(t, "lit!") }

// knownDifferent: term is known (from an assumed disequality) to differ from the literal
func (s *State) knownDifferent(term, lit string) bool {
	if s.lits == nil {
		return false
	}
	_, ok := s.lits["!"+s.find(term)+"!"+lit]
	return ok
}

func (s *State) litOf(t string) string {
	if isLitName(t) {
		return t
	}
	if s.lits != nil {
		if l, ok := s.lits["="+s.find(t)]; ok {
			return l
		}
	}
	return ""
}

func topConjuncts(t string) []string {
	p := sexpArgs(t)
	if len(p) > 0 && p[0] == "and" {
		var out []string
		for _, x := range p[1:] {
			out = append(out, topConjuncts(x)...)
		}
		return out
	}
	return []string{t}
}

// sexpArgs splits "(f a b)" into [f a b]; atoms give nil.
func sexpArgs(t string) []string {
	if len(t) < 2 || t[0] != '(' || t[len(t)-1] != ')' {
		return nil
	}
	body := t[1 : len(t)-1]
	var out []string
	depth, start := 0, -1
	for i := 0; i < len(body); i++ {
		ch := body[i]
		switch {
		case ch == '(':
			if depth == 0 && start < 0 {
				start = i
			}
			depth++
		case ch == ')':
			depth--
			if depth == 0 {
				out = append(out, body[start:i+1])
				start = -1
			}
		case ch == ' ' || ch == '\n':
			if depth == 0 && start >= 0 {
				out = append(out, body[start:i])
				start = -1
			}
		default:
			if depth == 0 && start < 0 {
				start = i
			}
		}
	}
	if start >= 0 {
		out = append(out, body[start:])
	}
	return out
}

func (s *State) pcTerm() string { return tAnd(s.pc...) }

type exitKind int

const (
	exNormal exitKind = iota
	exBreak
	exContinue
	exReturn
	exFallthrough
	exPanic
	exGoto
)

type Exit struct {
	kind  exitKind
	label string
	st    *State
}

type Obligation struct {
	Name    string
	Kind    string
	Descr   string
	Pos     string
	Hyps    []string
	Goal    string
	Expect  string            // "unsat" (default) or "notunsat" (vacuity)
	Clause  string            // contract clause source, for reports
	Inputs  map[string]string // name -> SMT term of the function's inputs (for model read-back)
	Only    []string
	Timeout int
}

// Verifier: global data
type Verifier struct {
	pkgs         map[string]*packages.Package // by package name (glob, server, ...)
	fset         *token.FileSet
	specs        *Specs
	funcs        map[string]*ast.FuncDecl // key -> decl
	funcPkg      map[string]*packages.Package
	assumed      map[string]bool // assumption strings
	repoRoot     string
	effects      map[string]*Effects
	fieldContent map[string]string   // "pkg.Type.field" -> content heap key of its pointee / map
	assignedIn   map[string][]string // field -> functions that assign it directly
}

func funcKey(pkgName string, fd *ast.FuncDecl) string {
	if fd.Recv != nil && len(fd.Recv.List) > 0 {
		t := fd.Recv.List[0].Type
		if s, ok := t.(*ast.StarExpr); ok {
			t = s.X
		}
		switch x := t.(type) {
		case *ast.Ident:
			return pkgName + "." + x.Name + "." + fd.Name.Name
		case *ast.IndexExpr:
			if id, ok := x.X.(*ast.Ident); ok {
				return pkgName + "." + id.Name + "." + fd.Name.Name
			}
		}
	}
	return pkgName + "." + fd.Name.Name
}

func typesFuncKey(f *types.Func) string {
	pkg := ""
	if f.Pkg() != nil {
		pkg = f.Pkg().Name()
	}
	sig, _ := f.Type().(*types.Signature)
	if sig != nil && sig.Recv() != nil {
		t := sig.Recv().Type()
		if p, ok := t.(*types.Pointer); ok {
			t = p.Elem()
		}
		switch n := t.(type) {
		case *types.Named:
			if n.Obj().Pkg() != nil {
				pkg = n.Obj().Pkg().Name()
			}
			return pkg + "." + n.Obj().Name() + "." + f.Name()
		case *types.Alias:
			return pkg + "." + n.Obj().Name() + "." + f.Name()
		}
		return pkg + ".?." + f.Name()
	}
	return pkg + "." + f.Name()
}

// FnCtx: one function under verification
type FnCtx struct {
	V             *Verifier
	pkg           *packages.Package
	info          *types.Info
	fd            *ast.FuncDecl
	key           string
	con           *Contract
	decls         *Decls
	facts         []string
	obls          []*Obligation
	nfresh        int
	entry         map[string]*Val // param name -> entry value
	pre           *State
	params        []types.Object
	results       []types.Object
	resNames      []string
	loopOrd       map[ast.Node]int
	nopanic       bool
	ieee          bool
	loopInvPC     map[int][]string // per loop ordinal: the hypotheses its invariants contributed at the loop head
	warns         []string
	assumes       map[string]bool
	lits          map[string]string // go string -> literal const
	litOrder      []string
	refs          []string // fresh allocated refs
	inputs        map[string]string
	splitTag      string
	rejected      string
	depth         int
	usedCons      map[string]bool // callee contracts used
	labels        map[string]int  // at-label counters
	curFn         []*ast.FuncLit
	retStates     []*State
	nObl          map[string]int
	errGlobals    map[string]bool
	boxedScalars  map[types.Object]string
	typeTags      map[string]bool
	overflow      bool
	needStrOrder  bool
	frames        []*frame
	closureLits   map[types.Object]*ast.FuncLit
	inModScan     map[*ast.FuncLit]bool
	hiddenIdx     map[ast.Node]types.Object
	rangeIdx      map[ast.Node]types.Object
	rangeLen      map[ast.Node]string
	callOrds      map[*ast.CallExpr]int
	siteOrds      map[*ast.CallExpr]int
	mapSeqOf      map[ast.Node]*Val // range-over-map loops: the key sequence they run over
	deferEnd      map[*ast.CallExpr]token.Pos
	nocontract    map[string]bool
	externNoCon   map[string]bool
	havocAllHeap  bool
	specErrs      []string
	ghostDefs     []string
	usedAxioms    []string
	inTrial       map[ast.Node]bool
	curRecvExpr   ast.Expr
	iterExtra     map[ast.Node][]types.Object
	iterCount     *Val
	arbDepth      int
	named         map[string]string
	escaped       map[string]bool
	inlining      map[string]int
	gotoTargets   map[string]bool
	gotoActive    map[string]bool
	splitAtCall   string
	factSyms      [][]string
	symFacts      map[string][]int
	preludeHead   string
	splitConds    []Clause
	autoFramed    map[string]bool
	iterLast      *Val
	inferredNotes []string
}

func (c *FnCtx) fresh(prefix string, s Sort) string {
	c.nfresh++
	name := fmt.Sprintf("%s!%d", prefix, c.nfresh)
	c.decls.declFun(name, nil, s)
	return name
}

func (c *FnCtx) warn(format string, a ...any) {
	w := fmt.Sprintf(format, a...)
	for _, x := range c.warns {
		if x == w {
			return
		}
	}
	c.warns = append(c.warns, w)
}

func (c *FnCtx) assumeNote(s string) { c.assumes[s] = true }

func (c *FnCtx) pos(n ast.Node) string {
	if n == nil {
		return ""
	}
	p := c.V.fset.Position(n.Pos())
	return fmt.Sprintf("%s:%d", strings.TrimPrefix(p.Filename, c.V.repoRoot+"/"), p.Line)
}

func (c *FnCtx) addFact(f string) {
	if f != "true" {
		c.facts = append(c.facts, f)
	}
}

// ---- sorts of Go types ----

func (c *FnCtx) sortOf(t types.Type) Sort {
	if t == nil {
		return SInt
	}
	if n, ok := types.Unalias(t).(*types.Named); ok && len(c.V.specs.Abstract) > 0 {
		if so, ok := c.V.specs.Abstract[typeShortName(n)]; ok {
			if so == SStr || isSeq(so) {
				c.declSeq(so)
			}
			return so
		}
	}
	switch u := t.Underlying().(type) {
	case *types.Basic:
		switch {
		case u.Info()&types.IsBoolean != 0:
			return SBool
		case u.Info()&types.IsInteger != 0:
			return SInt
		case u.Info()&types.IsFloat != 0:
			if c.ieee {
				if u.Kind() == types.Float32 {
					return "(_ FloatingPoint 8 24)"
				}
				return "(_ FloatingPoint 11 53)"
			}
			return SReal
		case u.Info()&types.IsString != 0:
			return SStr
		case u.Kind() == types.UnsafePointer:
			return SInt
		case u.Kind() == types.UntypedNil:
			return SInt
		}
		return SInt
	case *types.Slice:
		if b, ok := u.Elem().Underlying().(*types.Basic); ok && b.Kind() == types.Uint8 {
			return SStr
		}
		es := c.sortOf(u.Elem())
		if es == SNone {
			es = SInt // slice of structs: elements are refs
		}
		return seqSort(es)
	case *types.Array:
		if b, ok := u.Elem().Underlying().(*types.Basic); ok && b.Kind() == types.Uint8 {
			return SStr
		}
		es := c.sortOf(u.Elem())
		if es == SNone {
			es = SInt
		}
		return seqSort(es)
	case *types.Struct:
		return SNone
	case *types.Pointer, *types.Interface, *types.Signature, *types.Chan, *types.Map:
		return SInt
	case *types.Tuple:
		return SNone
	case *types.TypeParam:
		return SInt
	}
	return SInt
}

func isByteType(t types.Type) bool {
	if t == nil {
		return false
	}
	b, ok := t.Underlying().(*types.Basic)
	return ok && (b.Kind() == types.Uint8)
}

func intRange(t types.Type) (lo, hi string, ok bool) {
	b, isb := t.Underlying().(*types.Basic)
	if !isb {
		return "", "", false
	}
	switch b.Kind() {
	case types.Uint8:
		return "0", "255", true
	case types.Int8:
		return "(- 128)", "127", true
	case types.Uint16:
		return "0", "65535", true
	case types.Int16:
		return "(- 32768)", "32767", true
	case types.Uint32:
		return "0", "4294967295", true
	case types.Int32:
		return "(- 2147483648)", "2147483647", true
	case types.Uint64, types.Uint, types.Uintptr:
		return "0", "18446744073709551615", true
	case types.Int64, types.Int:
		return "(- 9223372036854775808)", "9223372036854775807", true
	}
	return "", "", false
}

// ---- Str / Seq primitives ----

func (c *FnCtx) declSeq(s Sort) {
	n := sortName(s)
	c.decls.needSort(s)
	var elem Sort = SInt
	if s != SStr {
		elem = Sort(strings.TrimPrefix(string(s), "Seq_"))
		// element sort names were flattened by sortName; recover known ones
		elem = unflattenSort(elem)
	}
	c.decls.declFun("len_"+n, []Sort{s}, SInt)
	c.decls.declFun("at_"+n, []Sort{s, SInt}, elem)
	c.decls.declFun("sub_"+n, []Sort{s, SInt, SInt}, s)
	c.decls.declFun("cat_"+n, []Sort{s, s}, s)
	c.decls.declFun("app1_"+n, []Sort{s, elem}, s)
	c.decls.declFun("empty_"+n, nil, s)
}

func unflattenSort(s Sort) Sort {
	str := string(s)
	if strings.HasPrefix(str, "Array_") {
		// Array_K_V with simple K,V
		p := strings.SplitN(str[len("Array_"):], "_", 2)
		if len(p) == 2 {
			return arrSort(unflattenSort(Sort(p[0])), unflattenSort(Sort(p[1])))
		}
	}
	return s
}

func elemSort(s Sort) Sort {
	if s == SStr {
		return SInt
	}
	return unflattenSort(Sort(strings.TrimPrefix(string(s), "Seq_")))
}

func (c *FnCtx) seqLen(v *Val) string {
	c.declSeq(v.S)
	return tApp("len_"+sortName(v.S), v.T)
}
func (c *FnCtx) seqAt(v *Val, i string) string {
	c.declSeq(v.S)
	return tApp("at_"+sortName(v.S), v.T, i)
}

// seqSub returns a term for v[a:b] and records its defining facts.
func (c *FnCtx) seqSub(v *Val, a, b string) string {
	c.declSeq(v.S)
	n := sortName(v.S)
	if a == "0" && b == c.seqLen(v) {
		return v.T
	}
	t := tApp("sub_"+n, v.T, a, b)
	return t
}

// base axioms for a sequence sort (quantified, with patterns)
func seqAxioms(s Sort) []string {
	n := sortName(s)
	S := string(s)
	ax := []string{
		fmt.Sprintf("(forall ((s %s)) (! (and (>= (len_%s s) 0) (<= (len_%s s) 140737488355328)) :pattern ((len_%s s))))", S, n, n, n),
		fmt.Sprintf("(= (len_%s empty_%s) 0)", n, n),
		fmt.Sprintf("(forall ((s %s)) (! (=> (= (len_%s s) 0) (= s empty_%s)) :pattern ((len_%s s))))", S, n, n, n),
		// sub
		fmt.Sprintf("(forall ((s %s) (a Int) (b Int)) (! (=> (and (<= 0 a) (<= a b) (<= b (len_%s s))) (= (len_%s (sub_%s s a b)) (- b a))) :pattern ((sub_%s s a b))))", S, n, n, n, n),
		fmt.Sprintf("(forall ((s %s) (a Int) (b Int) (i Int)) (! (=> (and (<= 0 a) (<= a b) (<= b (len_%s s)) (<= 0 i) (< i (- b a))) (= (at_%s (sub_%s s a b) i) (at_%s s (+ a i)))) :pattern ((at_%s (sub_%s s a b) i))))", S, n, n, n, n, n, n),
		fmt.Sprintf("(forall ((s %s)) (! (= (sub_%s s 0 (len_%s s)) s) :pattern ((sub_%s s 0 (len_%s s)))))", S, n, n, n, n),
		fmt.Sprintf("(forall ((s %s) (a Int) (b Int) (c Int) (d Int)) (! (=> (and (<= 0 a) (<= a b) (<= b (len_%s s)) (<= 0 c) (<= c d) (<= d (- b a))) (= (sub_%s (sub_%s s a b) c d) (sub_%s s (+ a c) (+ a d)))) :pattern ((sub_%s (sub_%s s a b) c d))))", S, n, n, n, n, n, n),
		// cat
		fmt.Sprintf("(forall ((s %s) (t %s)) (! (= (len_%s (cat_%s s t)) (+ (len_%s s) (len_%s t))) :pattern ((cat_%s s t))))", S, S, n, n, n, n, n),
		fmt.Sprintf("(forall ((s %s) (t %s) (i Int)) (! (=> (and (<= 0 i) (< i (+ (len_%s s) (len_%s t)))) (= (at_%s (cat_%s s t) i) (ite (< i (len_%s s)) (at_%s s i) (at_%s t (- i (len_%s s)))))) :pattern ((at_%s (cat_%s s t) i))))", S, S, n, n, n, n, n, n, n, n, n, n),
		fmt.Sprintf("(forall ((s %s)) (! (and (= (cat_%s empty_%s s) s) (= (cat_%s s empty_%s) s)) :pattern ((cat_%s empty_%s s)) :pattern ((cat_%s s empty_%s))))", S, n, n, n, n, n, n, n, n),
		fmt.Sprintf("(forall ((s %s) (a Int) (b Int) (c Int)) (! (=> (and (<= 0 a) (<= a b) (<= b c) (<= c (len_%s s))) (= (cat_%s (sub_%s s a b) (sub_%s s b c)) (sub_%s s a c))) :pattern ((cat_%s (sub_%s s a b) (sub_%s s b c)))))", S, n, n, n, n, n, n, n, n),
		fmt.Sprintf("(forall ((s %s) (a Int)) (! (=> (and (<= 0 a) (<= a (len_%s s))) (= (sub_%s s a a) empty_%s)) :pattern ((sub_%s s a a))))", S, n, n, n, n),
		// app1
		fmt.Sprintf("(forall ((s %s) (x %s)) (! (= (len_%s (app1_%s s x)) (+ (len_%s s) 1)) :pattern ((app1_%s s x))))", S, elemSort(s), n, n, n, n),
	}
	xr := "true"
	if s == SStr {
		xr = "(and (<= 0 x) (<= x 255))"
	}
	ax = append(ax, fmt.Sprintf("(forall ((s %s) (x %s) (i Int)) (! (=> (and (<= 0 i) (<= i (len_%s s)) %s) (= (at_%s (app1_%s s x) i) (ite (< i (len_%s s)) (at_%s s i) x))) :pattern ((at_%s (app1_%s s x) i))))", S, elemSort(s), n, xr, n, n, n, n, n, n))
	if s == SStr {
		ax = append(ax, "(forall ((s Str) (i Int)) (! (and (<= 0 (at_Str s i)) (<= (at_Str s i) 255)) :pattern ((at_Str s i))))")
	}
	return ax
}

// strLit returns the constant for a Go string literal.
func (c *FnCtx) strLit(s string) string {
	c.declSeq(SStr)
	if s == "" {
		return "empty_Str"
	}
	if t, ok := c.lits[s]; ok {
		return t
	}
	name := fmt.Sprintf("lit!%d", len(c.lits))
	c.decls.declFun(name, nil, SStr)
	c.lits[s] = name
	c.litOrder = append(c.litOrder, s)
	return name
}

func (c *FnCtx) litFacts() []string {
	var fs []string
	var names []string
	for _, s := range c.litOrder {
		n := c.lits[s]
		names = append(names, n)
		fs = append(fs, fmt.Sprintf("(= (len_Str %s) %d)", n, len(s)))
		lim := len(s)
		if lim > 96 {
			lim = 96
		}
		for i := 0; i < lim; i++ {
			fs = append(fs, fmt.Sprintf("(= (at_Str %s %d) %d)", n, i, s[i]))
		}
	}
	if len(names) > 0 {
		// literals of equal length need an explicit distinctness statement only when the
		// bytes are not fully given; stating it for all is harmless (they are distinct Go values).
		all := append([]string{"empty_Str"}, names...)
		if len(all) > 1 {
			fs = append(fs, "(distinct "+strings.Join(all, " ")+")")
		}
	}
	return fs
}

// ptrKey: the heap holding the values pointers of this element type point to. Abstract containers get one heap per
// Go type (so that effects on the server's hook trees do not disturb what is known about a collection's trees).
func (c *FnCtx) ptrKey(elem types.Type) string {
	if elem != nil {
		if n, ok := types.Unalias(elem).(*types.Named); ok {
			if _, isAbs := c.V.specs.Abstract[typeShortName(n)]; isAbs {
				return "ptr." + typeShortName(n)
			}
		}
	}
	return "ptr." + sortName(c.sortOf(elem))
}

// ---- heap ----

func structOf(t types.Type) (*types.Struct, *types.Named) {
	if t == nil {
		return nil, nil
	}
	if p, ok := t.Underlying().(*types.Pointer); ok {
		t = p.Elem()
	}
	n, _ := types.Unalias(t).(*types.Named)
	s, _ := t.Underlying().(*types.Struct)
	return s, n
}

func typeShortName(t types.Type) string {
	if p, ok := t.(*types.Pointer); ok {
		t = p.Elem()
	}
	t = types.Unalias(t)
	if n, ok := t.(*types.Named); ok {
		if n.Obj().Pkg() != nil {
			return n.Obj().Pkg().Name() + "." + n.Obj().Name()
		}
		return n.Obj().Name()
	}
	return "anon"
}

func (c *FnCtx) heapGet(st *State, key string, s Sort) string {
	if t, ok := st.heap[key]; ok {
		return t
	}
	name := "H_" + sanitizeSym(key)
	c.decls.declFun(name, nil, arrSort(SInt, s))
	st.heap[key] = name
	if c.pre != nil {
		if _, ok := c.pre.heap[key]; !ok {
			c.pre.heap[key] = name
		}
	}
	return name
}

func sanitizeSym(s string) string {
	var b strings.Builder
	for _, ch := range s {
		switch {
		case ch >= 'a' && ch <= 'z', ch >= 'A' && ch <= 'Z', ch >= '0' && ch <= '9', ch == '_', ch == '.':
			b.WriteRune(ch)
		default:
			b.WriteByte('_')
		}
	}
	return b.String()
}

// field read through a reference
func (c *FnCtx) loadField(st *State, ref string, owner string, path string, ft types.Type) *Val {
	s := c.sortOf(ft)
	if s == SNone {
		// by-value struct field: composite reading lazily through longer paths
		v := &Val{S: SNone, Typ: ft, Box: ref}
		v.T = owner + "." + path // marker: box path prefix
		return v
	}
	key := owner + "." + path
	h := c.heapGet(st, key, s)
	v := &Val{T: tApp("select", h, ref), S: s, Typ: ft}
	c.typeFacts(st, v)
	if c.V.specs.FieldInv[key] == "nonnil" && s == SInt {
		// constructor-established, never reassigned: holds for every object that exists
		st.assume(tOr(tEq(ref, "0"), tNot(tEq(v.T, "0"))))
		c.assumeNote("field invariant " + key + " != nil (assigned only by constructors; checked syntactically)")
	}
	return v
}

func (c *FnCtx) storeField(st *State, ref string, owner, path string, ft types.Type, v *Val) {
	s := c.sortOf(ft)
	key := owner + "." + path
	if s == SNone {
		// struct copy into heap: field by field
		stt, _ := structOf(ft)
		if stt == nil {
			return
		}
		for i := 0; i < stt.NumFields(); i++ {
			f := stt.Field(i)
			fv := c.fieldOfVal(st, v, f.Name(), f.Type())
			c.storeField(st, ref, owner, path+"."+f.Name(), f.Type(), fv)
		}
		return
	}
	h := c.heapGet(st, key, s)
	st.heap[key] = tApp("store", h, ref, c.coerce(v, s).T)
}

// fieldOfVal reads field name of a struct value (composite or boxed)
func (c *FnCtx) fieldOfVal(st *State, v *Val, name string, ft types.Type) *Val {
	if v.Box != "" {
		// v.T holds "owner.path" prefix
		owner, path := splitOwner(v.T)
		np := name
		if path != "" {
			np = path + "." + name
		}
		return c.loadField(st, v.Box, owner, np, ft)
	}
	if v.Fields == nil {
		v.Fields = map[string]*Val{}
	}
	if f, ok := v.Fields[name]; ok {
		return f
	}
	f := c.zeroVal(ft)
	v.Fields[name] = f
	return f
}

func splitOwner(s string) (owner, path string) {
	// owner is "pkg.Type", path is the rest
	parts := strings.SplitN(s, ".", 3)
	if len(parts) <= 2 {
		return s, ""
	}
	return parts[0] + "." + parts[1], parts[2]
}

// typeFacts adds range facts for values read from memory / inputs.
func (c *FnCtx) typeFacts(st *State, v *Val) {
	if v.Typ != nil && (v.S == SStr || isSeq(v.S)) {
		if at, ok := v.Typ.Underlying().(*types.Array); ok {
			st.assume(tEq(c.seqLen(v), fmt.Sprint(at.Len()))) // an array value has the length of its type
		}
	}
	if v.S == SInt && v.Typ != nil {
		if b, ok := v.Typ.Underlying().(*types.Basic); ok && b.Info()&types.IsInteger != 0 {
			if lo, hi, ok := intRange(v.Typ); ok {
				st.assume(fmt.Sprintf("(and (<= %s %s) (<= %s %s))", lo, v.T, v.T, hi))
			}
		}
	}
}

func (c *FnCtx) zeroVal(t types.Type) *Val {
	s := c.sortOf(t)
	v := &Val{S: s, Typ: t}
	switch {
	case s == SInt:
		v.T = "0"
	case s == SBool:
		v.T = "false"
	case s == SReal:
		v.T = "0.0"
	case s == SStr:
		c.declSeq(SStr)
		v.T = "empty_Str"
		if t != nil {
			if at, ok := t.Underlying().(*types.Array); ok && at.Len() > 0 {
				v.T = c.zeroArray(s, at)
			}
		}
	case isSeq(s):
		c.declSeq(s)
		v.T = "empty_" + sortName(s)
		if at, ok := t.Underlying().(*types.Array); ok && at.Len() > 0 {
			v.T = c.zeroArray(s, at)
		}
	case s == SNone:
		v.Fields = map[string]*Val{}
		if stt, _ := structOf(t); stt != nil {
			for i := 0; i < stt.NumFields(); i++ {
				f := stt.Field(i)
				v.Fields[f.Name()] = c.zeroVal(f.Type())
			}
		}
	case strings.HasPrefix(string(s), "(_ FloatingPoint"):
		v.T = fmt.Sprintf("((_ to_fp %s) RNE 0.0)", fpDims(s))
	case isArr(s):
		_, vs := arrParts(s)
		z := "0"
		switch vs {
		case SBool:
			z = "false"
		case SReal:
			z = "0.0"
		}
		if vs != SInt && vs != SBool && vs != SReal {
			v.T = c.fresh("zero", s)
		} else {
			v.T = fmt.Sprintf("((as const %s) %s)", s, z)
		}
	default:
		v.T = c.fresh("zero", s)
	}
	return v
}

// zeroArray: the zero value of a Go array [N]T is a sequence of length N whose elements are zero.
func (c *FnCtx) zeroArray(s Sort, at *types.Array) string {
	n := sortName(s)
	z := c.fresh("zeroarr_"+n, s)
	c.addFact(tEq(tApp("len_"+n, z), tInt(at.Len())))
	ez := c.zeroVal(at.Elem())
	if ez.S != SNone && ez.T != "" {
		c.addFact(fmt.Sprintf("(forall ((k Int)) (! (= (at_%s %s k) %s) :pattern ((at_%s %s k))))", n, z, ez.T, n, z))
	}
	return z
}

func fpDims(s Sort) string {
	return strings.TrimSuffix(strings.TrimPrefix(string(s), "(_ FloatingPoint "), ")")
}

// havocVal: a fresh unconstrained value of type t
func (c *FnCtx) havocVal(st *State, t types.Type, hint string) *Val {
	s := c.sortOf(t)
	v := &Val{S: s, Typ: t}
	if s == SNone {
		v.Fields = map[string]*Val{}
		if stt, _ := structOf(t); stt != nil {
			for i := 0; i < stt.NumFields(); i++ {
				f := stt.Field(i)
				v.Fields[f.Name()] = c.havocVal(st, f.Type(), hint+"_"+f.Name())
			}
		}
		return v
	}
	v.T = c.fresh(sanitizeSym(hint), s)
	if st != nil {
		c.typeFacts(st, v)
	}
	return v
}

func (c *FnCtx) coerce(v *Val, s Sort) *Val {
	if v.S == s || s == SNone {
		return v
	}
	if v.S == SInt && s == SReal {
		return &Val{T: tApp("to_real", v.T), S: SReal, Typ: v.Typ}
	}
	return v
}

// ---- state merge ----

func sameDefers(a, b []*Deferred) bool {
	if len(a) != len(b) {
		return false
	}
	for i := range a {
		if a[i] != b[i] {
			return false
		}
	}
	return true
}

// mergeStates merges states pairwise-compatible (same defer stack) into one; incompatible are kept apart.
func (c *FnCtx) mergeStates(sts []*State) []*State {
	// drop infeasible states
	live := sts[:0:0]
	for _, s := range sts {
		dead := false
		for _, p := range s.pc {
			if p == "false" {
				dead = true
				break
			}
		}
		if !dead {
			live = append(live, s)
		}
	}
	sts = live
	if len(sts) <= 1 {
		return sts
	}
	if c.con != nil && c.con.Flags["no-merge"] && len(sts) <= 32 {
		// path-wise exploration: the obligations of small functions stay free of if-then-else terms
		return sts
	}
	var groups [][]*State
	for _, s := range sts {
		placed := false
		for i, g := range groups {
			if sameDefers(g[0].defers, s.defers) {
				groups[i] = append(groups[i], s)
				placed = true
				break
			}
		}
		if !placed {
			groups = append(groups, []*State{s})
		}
	}
	var out []*State
	for _, g := range groups {
		out = append(out, c.merge(g))
	}
	return out
}

func (c *FnCtx) merge(sts []*State) *State {
	if len(sts) == 1 {
		return sts[0]
	}
	// common pc prefix
	n := len(sts[0].pc)
	for _, s := range sts[1:] {
		k := 0
		for k < n && k < len(s.pc) && s.pc[k] == sts[0].pc[k] {
			k++
		}
		n = k
	}
	rests := make([]string, len(sts))
	for i, s := range sts {
		rests[i] = c.nameBool(tAnd(s.pc[n:]...), "mc")
	}
	out := &State{pc: append([]string(nil), sts[0].pc[:n]...), vars: map[types.Object]*Val{}, heap: map[string]string{}, ghost: map[string]string{}, defers: sts[0].defers}
	out.assume(tOr(rests...))
	for _, s := range sts {
		if s.splitIdx > out.splitIdx {
			out.splitIdx = s.splitIdx
		}
	}
	{
		terms := make([]string, len(sts))
		same := true
		for i, s := range sts {
			terms[i] = s.alloc
			if terms[i] != terms[0] {
				same = false
			}
		}
		out.alloc = terms[0]
		if !same {
			f := c.fresh("alloc_m", SInt)
			c.defineMerged(f, rests, terms)
			out.alloc = f
		}
	}
	// literal knowledge common to all
	for k, l := range sts[0].lits {
		all := true
		for _, s := range sts[1:] {
			if s.lits[k] != l {
				all = false
				break
			}
		}
		if all {
			out.put(k, l)
		}
	}
	// vars: union of keys present in all
	for k, v0 := range sts[0].vars {
		vals := []*Val{v0}
		ok := true
		for _, s := range sts[1:] {
			v, has := s.vars[k]
			if !has {
				ok = false
				break
			}
			vals = append(vals, v)
		}
		if !ok {
			continue
		}
		out.vars[k] = c.mergeVals(vals, rests, k.Name())
	}
	// loop index variables (idxN in contracts) of loops that only some of the merged paths went through: kept, with an
	// arbitrary value on the paths that did not run the loop, so that a clause after the join can still speak about them
	for _, s0 := range sts {
		for k, v := range s0.vars {
			if _, done := out.vars[k]; done || v.S != SInt {
				continue
			}
			if n := k.Name(); !(strings.HasPrefix(n, "iter_k_") || strings.HasPrefix(n, "range_i_") || strings.HasPrefix(n, "range_mi_")) {
				continue
			}
			vals := make([]*Val, len(sts))
			for i, s := range sts {
				if v2, has := s.vars[k]; has {
					vals[i] = v2
				} else {
					vals[i] = c.havocVal(nil, k.Type(), "noloop_"+k.Name())
				}
			}
			out.vars[k] = c.mergeVals(vals, rests, k.Name())
		}
	}
	hk := map[string]bool{}
	for _, s := range sts {
		for k := range s.heap {
			hk[k] = true
		}
	}
	keys := make([]string, 0, len(hk))
	for k := range hk {
		keys = append(keys, k)
	}
	sort.Strings(keys)
	for _, k := range keys {
		terms := make([]string, len(sts))
		same := true
		for i, s := range sts {
			t, ok := s.heap[k]
			if !ok {
				t = "H_" + sanitizeSym(k)
			}
			terms[i] = t
			if t != terms[0] {
				same = false
			}
		}
		if same {
			out.heap[k] = terms[0]
			continue
		}
		srt := c.heapSort(k)
		f := c.fresh("Hm_"+sanitizeSym(k), srt)
		c.defineMerged(f, rests, terms)
		out.heap[k] = f
	}
	gk := map[string]bool{}
	for _, s := range sts {
		for k := range s.ghost {
			gk[k] = true
		}
	}
	for k := range gk {
		terms := make([]string, len(sts))
		same := true
		for i, s := range sts {
			terms[i] = s.ghost[k]
			if terms[i] == "" {
				if gv := c.V.specs.GhostVars[k]; gv != nil {
					terms[i] = c.ghostGet(s, gv)
				}
			}
			if terms[i] != terms[0] {
				same = false
			}
		}
		if same {
			out.ghost[k] = terms[0]
			continue
		}
		gv := c.V.specs.GhostVars[k]
		f := c.fresh("g_"+sanitizeSym(k), gv.Sort)
		c.defineMerged(f, rests, terms)
		out.ghost[k] = f
	}
	return out
}

// nameBool introduces a fresh Boolean constant for a large formula (keeps terms small; definitional fact).
func (c *FnCtx) nameBool(t string, hint string) string {
	if len(t) <= 160 {
		return t
	}
	if n, ok := c.named[t]; ok {
		return n
	}
	n := c.fresh(hint, SBool)
	c.addFact(tEq(n, t))
	c.named[t] = n
	return n
}

// nameTerm does the same for a value term of the given sort.
func (c *FnCtx) nameTerm(t string, s Sort, hint string) string {
	if len(t) <= 400 || s == SNone {
		return t
	}
	if n, ok := c.named[t]; ok {
		return n
	}
	n := c.fresh(hint, s)
	c.addFact(tEq(n, t))
	c.named[t] = n
	return n
}

// defineMerged states f = ite(c0,t0, ite(c1,t1, ... tn)) — consistent whatever the conditions are.
func (c *FnCtx) defineMerged(f string, conds, terms []string) {
	t := terms[len(terms)-1]
	for i := len(terms) - 2; i >= 0; i-- {
		t = tIte(conds[i], terms[i], t)
	}
	c.addFact(tEq(f, t))
}

func (c *FnCtx) heapSort(key string) Sort {
	name := "H_" + sanitizeSym(key)
	d := c.decls.funs[name]
	// "(declare-fun NAME () SORT)"
	i := strings.Index(d, "() ")
	if i < 0 {
		return arrSort(SInt, SInt)
	}
	return Sort(strings.TrimSuffix(d[i+3:], ")"))
}

func (c *FnCtx) mergeVals(vals []*Val, conds []string, hint string) *Val {
	same := true
	for _, v := range vals[1:] {
		if v != vals[0] && !(v.T == vals[0].T && v.S == vals[0].S && v.Fields == nil && vals[0].Fields == nil && v.Fn == vals[0].Fn && v.Box == vals[0].Box) {
			same = false
			break
		}
	}
	if same {
		return vals[0]
	}
	v0 := vals[0]
	if v0.S == SNone {
		if v0.Box != "" {
			return v0
		}
		out := &Val{S: SNone, Typ: v0.Typ, Fields: map[string]*Val{}}
		names := map[string]bool{}
		for _, v := range vals {
			for k := range v.Fields {
				names[k] = true
			}
		}
		for k := range names {
			var fs []*Val
			for _, v := range vals {
				f := v.Fields[k]
				if f == nil {
					var ft types.Type
					if stt, _ := structOf(v0.Typ); stt != nil {
						for i := 0; i < stt.NumFields(); i++ {
							if stt.Field(i).Name() == k {
								ft = stt.Field(i).Type()
							}
						}
					}
					f = c.zeroVal(ft)
				}
				fs = append(fs, f)
			}
			out.Fields[k] = c.mergeVals(fs, conds, hint+"_"+k)
		}
		return out
	}
	if v0.Fn != nil || v0.FnObj != nil {
		return v0
	}
	// small number of alternatives: ite chain; else fresh constant
	namedSeq := c.con != nil && c.con.Flags["no-merge"] && isSeq(v0.S) // sequences get a name: at(name, i) is a usable trigger term
	if len(vals) == 2 && len(vals[0].T)+len(vals[1].T) < 200 && !namedSeq {
		return &Val{T: tIte(conds[0], vals[0].T, vals[1].T), S: v0.S, Typ: v0.Typ}
	}
	f := c.fresh("m_"+sanitizeSym(hint), v0.S)
	terms := make([]string, len(vals))
	for i, v := range vals {
		terms[i] = c.coerce(v, v0.S).T
	}
	c.defineMerged(f, conds, terms)
	return &Val{T: f, S: v0.S, Typ: v0.Typ}
}
