package main

// Loops: cut at the invariant.

import (
	"fmt"
	"go/ast"
	"go/token"
	"go/types"
	"strings"
)

// modSet: what a statement may modify (syntactic over-approximation)
type modSet struct {
	vars       map[types.Object]bool
	heap       map[string]bool // heap keys
	ghost      map[string]bool
	all        bool // unknown callee: all heap + ghost
	heapPtrAll bool // some *p location: all ptr.* heaps
}

func newModSet() *modSet {
	return &modSet{vars: map[types.Object]bool{}, heap: map[string]bool{}, ghost: map[string]bool{}}
}

func (c *FnCtx) collectMods(n ast.Node, ms *modSet) {
	ast.Inspect(n, func(n ast.Node) bool {
		switch x := n.(type) {
		case *ast.AssignStmt:
			for _, l := range x.Lhs {
				c.modTarget(l, ms)
			}
		case *ast.IncDecStmt:
			c.modTarget(x.X, ms)
		case *ast.RangeStmt:
			if x.Key != nil {
				c.modTarget(x.Key, ms)
			}
			if x.Value != nil {
				c.modTarget(x.Value, ms)
			}
		case *ast.UnaryExpr:
			if x.Op == token.AND {
				// address taken inside loop: conservatively the variable may change through the pointer
				c.modTarget(x.X, ms)
			}
		case *ast.CallExpr:
			c.modCall(x, ms)
		}
		return true
	})
}

func (c *FnCtx) modTarget(l ast.Expr, ms *modSet) {
	switch x := l.(type) {
	case *ast.ParenExpr:
		c.modTarget(x.X, ms)
	case *ast.Ident:
		if o := c.info.ObjectOf(x); o != nil {
			ms.vars[o] = true
		}
	case *ast.SelectorExpr:
		sel := c.info.Selections[x]
		if sel == nil || sel.Kind() != types.FieldVal {
			return
		}
		// heap key or local struct
		t := sel.Recv()
		if _, isPtr := t.Underlying().(*types.Pointer); isPtr && len(sel.Index()) == 1 {
			c.addHeapKeys(typeShortName(t), x.Sel.Name, sel.Type(), ms)
		} else {
			// find root
			c.modTarget(x.X, ms)
			// embedded/nested through pointer
			ms.heapByField(x.Sel.Name)
		}
	case *ast.IndexExpr:
		bt := c.typeOf(x.X)
		if bt != nil {
			if mt, ok := bt.Underlying().(*types.Map); ok {
				_, _, key := c.mapKeys(mt)
				ms.heap[key+".val"] = true
				ms.heap[key+".dom"] = true
				return
			}
		}
		c.modTarget(x.X, ms)
	case *ast.StarExpr:
		t := c.typeOf(x)
		s := c.sortOf(t)
		if s == SNone {
			c.addHeapKeys(typeShortName(t), "", t, ms)
		} else {
			ms.heap[c.ptrKey(t)] = true
		}
	}
}

func (m *modSet) heapByField(name string) { m.heap["*."+name] = true }

func (c *FnCtx) addHeapKeys(owner, path string, ft types.Type, ms *modSet) {
	if c.sortOf(ft) != SNone {
		ms.heap[owner+"."+path] = true
		return
	}
	stt, _ := structOf(ft)
	if stt == nil {
		return
	}
	for i := 0; i < stt.NumFields(); i++ {
		f := stt.Field(i)
		p := f.Name()
		if path != "" {
			p = path + "." + f.Name()
		}
		c.addHeapKeys(owner, p, f.Type(), ms)
	}
}

func (c *FnCtx) modCall(call *ast.CallExpr, ms *modSet) {
	callee := c.calleeOf(call)
	if callee.fn != nil && c.con != nil {
		for _, ac := range c.con.AtCall {
			if ac.SetVar != "" && (ac.Callee == shortKey(typesFuncKey(callee.fn)) || ac.Callee == typesFuncKey(callee.fn)) {
				ms.ghost[ac.SetVar] = true
			}
		}
	}
	if callee.builtin != "" || callee.conv {
		return
	}
	if callee.lit != nil {
		return // body inspected by ast.Inspect already (immediately invoked literal)
	}
	if callee.local != nil {
		// closure variable: find its literal if it was bound to one in this function
		if fl := c.closureLits[callee.local]; fl != nil {
			if !c.inModScan[fl] {
				c.inModScan[fl] = true
				c.collectMods(fl.Body, ms)
				delete(c.inModScan, fl)
			}
			return
		}
		if pv, ok := callee.local.(*types.Var); ok && c.isParam(pv) {
			// traced callback parameter: only its ghost trace changes (assumption: it does not touch the container)
			for _, g := range []string{"calls.", "calls2.", "lastret.", "nextpos."} {
				ms.ghost[g+pv.Name()] = true
			}
			return
		}
		ms.all = true
		return
	}
	if callee.fn == nil {
		ms.all = true
		return
	}
	con := c.V.specs.Contracts[typesFuncKey(callee.fn)]
	if con != nil && con.Flags["frame-by-effects"] {
		if ef := c.V.effects[typesFuncKey(callee.fn)]; ef != nil {
			for _, k := range c.effectFieldKeys(ef) {
				ms.heap[k] = true
			}
			for _, ck := range c.contentKeys(ef) {
				ms.heap[ck] = true
			}
		}
	}
	if con == nil {
		if c.isRepoFunc(callee.fn) {
			if ef := c.V.effects[typesFuncKey(callee.fn)]; ef != nil && c.V.funcs[typesFuncKey(callee.fn)] != nil {
				for _, k := range c.effectFieldKeys(ef) {
					ms.heap[k] = true
				}
				for _, ck := range c.contentKeys(ef) {
					ms.heap[ck] = true
				}
				for g := range ef.G {
					ms.ghost[g] = true
				}
				if len(ef.LockOps) > 0 {
					ms.ghost["lock"] = true
				}
			} else {
				ms.all = true
			}
		}
		// extern without contract: assumed not to touch repo state; pointer args handled at the call
		for _, a := range call.Args {
			if u, ok := a.(*ast.UnaryExpr); ok && u.Op == token.AND {
				c.modTarget(u.X, ms)
			}
		}
		return
	}
	if con.ModAll {
		ms.all = true
		return
	}
	for _, m := range con.Modifies {
		c.modClause(m, ms)
	}
	// callbacks passed to iterator-like callees: the literal body runs
	for _, a := range call.Args {
		if fl, ok := a.(*ast.FuncLit); ok {
			_ = fl // inspected by ast.Inspect
		}
	}
}

// modClause interprets a modifies clause syntactically for mod-set purposes.
func (c *FnCtx) modClause(m Clause, ms *modSet) {
	switch x := m.Expr.(type) {
	case *ast.Ident:
		if _, ok := c.V.specs.GhostVars[x.Name]; ok {
			ms.ghost[x.Name] = true
			return
		}
		ms.heap["*."+x.Name] = true
	case *ast.SelectorExpr:
		ms.heap["*."+x.Sel.Name] = true
	case *ast.StarExpr:
		ms.heapPtrAll = true
	default:
		ms.all = true
	}
}

func (c *FnCtx) isRepoFunc(f *types.Func) bool {
	return f.Pkg() != nil && len(f.Pkg().Path()) >= len("github.com/tidwall/tile38") && f.Pkg().Path()[:len("github.com/tidwall/tile38")] == "github.com/tidwall/tile38"
}

// havoc applies a mod set to a state
func (c *FnCtx) havoc(st *State, ms *modSet, hint string) {
	for o := range ms.vars {
		cur, ok := st.vars[o]
		if !ok {
			continue
		}
		if cur.Fn != nil {
			continue
		}
		if cur.S == SNone && cur.Box != "" {
			owner, _ := splitOwner(cur.T)
			tmp := newModSet()
			c.addHeapKeys(owner, "", cur.Typ, tmp)
			for k := range tmp.heap {
				c.havocHeapKey(st, k)
			}
			continue
		}
		st.vars[o] = c.havocVal(st, o.Type(), o.Name()+"_"+hint)
	}
	if ms.all {
		for k := range st.heap {
			c.havocHeapKey(st, k)
		}
		c.havocAllHeap = true
		for _, g := range c.V.specs.GVOrder {
			c.havocGhost(st, g)
		}
		return
	}
	if ms.heapPtrAll {
		for k := range st.heap {
			if strings.HasPrefix(k, "ptr.") {
				c.havocHeapKey(st, k)
			}
		}
	}
	for k := range ms.heap {
		if len(k) > 2 && k[:2] == "*." {
			suffix := k[1:]
			for hk := range st.heap {
				if len(hk) >= len(suffix) && hk[len(hk)-len(suffix):] == suffix {
					c.havocHeapKey(st, hk)
				}
			}
			continue
		}
		if _, ok := st.heap[k]; ok {
			c.havocHeapKey(st, k)
		} else if srt, ok := c.sortOfHeapKey(k); ok {
			// a heap that this path has not read yet: it still has to become a new version, or a later read would see
			// the entry heap again (and "modified" would silently mean "unchanged")
			base := c.heapGet(st, k, srt)
			_ = base
			c.havocHeapKey(st, k)
		}
		for hk := range st.heap {
			if strings.HasPrefix(hk, k+".") {
				c.havocHeapKey(st, hk)
			}
		}
	}
	for g := range ms.ghost {
		c.havocGhost(st, g)
	}
}

func (c *FnCtx) havocHeapKey(st *State, k string) {
	srt := c.heapSort(k)
	old := st.heap[k]
	nw := c.fresh("Hh_"+sanitizeSym(k), srt)
	st.heap[k] = nw
	// maps / boxed scalars / abstract containers allocated by this function and never handed to a callee cannot be
	// changed by anybody else
	if old != "" && (strings.HasPrefix(k, "map.") || strings.HasPrefix(k, "ptr.")) {
		for _, r := range c.refs {
			if !c.escaped[r] {
				st.assume(tEq(tApp("select", nw, r), tApp("select", old, r)))
			}
		}
	}
}

func (c *FnCtx) havocGhost(st *State, g string) {
	gv := c.V.specs.GhostVars[g]
	if gv == nil {
		return
	}
	st.ghost[g] = c.fresh("gh_"+sanitizeSym(g), gv.Sort)
}

// loopSpec returns the contract clauses for a loop node.
func (c *FnCtx) loopSpec(n ast.Node) (*LoopSpec, int) {
	ord := c.loopOrd[n]
	if c.con != nil {
		if ls, ok := c.con.Loops[ord]; ok {
			return ls, ord
		}
	}
	return &LoopSpec{}, ord
}

// execLoop is the generic cut: init has been executed. cond may be nil (for {}). body executes one iteration
// (including post). Returns exits after the loop.
func (c *FnCtx) execLoop(st *State, node ast.Node, label string, bodyNode ast.Node, cond func(*State) string,
	body func(*State) []Exit, post func(*State) []Exit) []Exit {
	ls, ord := c.loopSpec(node)
	pos := bodyNode.Pos() + 1
	// 1. invariant on entry
	for i, inv := range ls.Inv {
		env := c.specEnvAt(st, pos)
		t := c.specBool(env, inv.Expr)
		c.addObl(&Obligation{Name: fmt.Sprintf("%s/loop%d/inv#%s/entry", c.key, ord, clauseID(inv, i)), Kind: "loop-inv-entry",
			Descr: "loop invariant holds on entry", Pos: c.pos(node), Hyps: append([]string(nil), st.pc...), Goal: t, Clause: inv.Src})
	}
	for i, ec := range ls.Entry {
		env := c.specEnvAt(st, pos)
		t := c.specBool(env, ec.Expr)
		c.addObl(&Obligation{Name: fmt.Sprintf("%s/loop%d/entry#%s", c.key, ord, clauseID(ec, i)), Kind: "loop-entry",
			Descr: "assertion on reaching the loop", Pos: c.pos(node), Hyps: append([]string(nil), st.pc...), Goal: t, Clause: ec.Src})
	}
	for i, ec := range ls.Keep {
		env := c.specEnvAt(st, pos)
		t := c.specBool(env, ec.Expr)
		c.addObl(&Obligation{Name: fmt.Sprintf("%s/loop%d/keep#%s", c.key, ord, clauseID(ec, i)), Kind: "loop-entry",
			Descr: "assertion on reaching the loop (kept as a hypothesis)", Pos: c.pos(node), Hyps: append([]string(nil), st.pc...), Goal: t, Clause: ec.Src})
		st.assume(t)
	}
	// dropping hypotheses is always sound: the invariant facts of a finished loop, once summarised by a `keep` clause,
	// only slow the solver down
	for _, m := range ls.Forget {
		drop := map[string]bool{}
		for _, t := range c.loopInvPC[m] {
			drop[t] = true
		}
		if len(drop) == 0 {
			continue
		}
		kept := st.pc[:0:0]
		for _, t := range st.pc {
			if !drop[t] {
				kept = append(kept, t)
			}
		}
		st.pc = kept
	}
	// 2. havoc
	ms := newModSet()
	c.collectMods(bodyNode, ms)
	if fs, ok := node.(*ast.ForStmt); ok {
		if fs.Post != nil {
			c.collectMods(fs.Post, ms)
		}
		if fs.Cond != nil {
			c.collectMods(fs.Cond, ms)
		}
	}
	if idx, ok := c.rangeIdx[node]; ok {
		ms.vars[idx] = true
	}
	for _, o := range c.iterExtra[node] {
		ms.vars[o] = true
	}
	mkHead := func(inferred []cand) *State {
		h := st.clone()
		c.havoc(h, ms, fmt.Sprintf("L%d", ord))
		c.bumpAlloc(h)
		n0 := len(h.pc)
		for _, inv := range ls.Inv {
			env := c.specEnvAt(h, pos)
			h.assume(c.specBool(env, inv.Expr))
		}
		if c.loopInvPC == nil {
			c.loopInvPC = map[int][]string{}
		}
		c.loopInvPC[ord] = append([]string(nil), h.pc[n0:]...)
		if idx, ok := c.rangeIdx[node]; ok {
			i := h.vars[idx]
			h.assume(tAnd(tApp("<=", "0", i.T), tApp("<=", i.T, c.rangeLen[node])))
			if ex := c.iterExtra[node]; len(ex) == 2 {
				// at the head of the synthesized loop every earlier invocation returned true and there were idx of them
				h.assume(tEq(h.vars[ex[0]].T, i.T))
				h.assume(tOr(tEq(i.T, "0"), h.vars[ex[1]].T))
			}
		}
		for _, k := range inferred {
			if t := k.term(h); t != "" {
				h.assume(t)
			}
		}
		return h
	}
	var inferred []cand
	if (c.nopanic || c.con.Flags["infer"]) && !c.inTrial[node] {
		cands := c.loopCandidates(st, node, ms)
		if len(cands) > 0 {
			c.inTrial[node] = true
			inferred = c.inferInvariants(st, node, cands, func(assumed []cand) (*State, []*State) {
				h := mkHead(assumed)
				guard := "true"
				if cond != nil {
					guard = cond(h)
				}
				it := h.clone()
				it.assume(guard)
				var back []*State
				for _, ex := range body(it) {
					if ex.kind == exNormal || (ex.kind == exContinue && (ex.label == "" || ex.label == label)) {
						if post != nil {
							for _, e2 := range post(ex.st) {
								if e2.kind == exNormal {
									back = append(back, e2.st)
								}
							}
						} else {
							back = append(back, ex.st)
						}
					}
				}
				return h, back
			})
			delete(c.inTrial, node)
			var ds []string
			for _, k := range inferred {
				ds = append(ds, k.descr)
			}
			if len(ds) > 0 {
				c.inferredNotes = append(c.inferredNotes, fmt.Sprintf("loop %d: inferred %s", ord, strings.Join(ds, ", ")))
			}
		}
	}
	h := mkHead(inferred)
	var exits []Exit
	// exit when the guard is false
	var guard string
	if cond != nil {
		gst := h // conditions may contain calls; evaluate on h directly (their effects are part of each iteration)
		guard = cond(gst)
	} else {
		guard = "true"
	}
	if guard != "true" {
		ex := h.clone()
		ex.assume(tNot(guard))
		exits = append(exits, Exit{kind: exNormal, st: ex})
	}
	// 4. one iteration
	it := h.clone()
	it.assume(guard)
	entryReachable := true
	if len(ls.Inv) > 0 && !c.inTrial[node] && len(c.inTrial) == 0 {
		// a loop on a path that the case split (or a guard) excludes is legitimately unreachable
		entryReachable = !c.quickCheckT(st.pc, "false", 1, []string{"z3-new"})
	}
	if len(ls.Inv) > 0 && !c.inTrial[node] && entryReachable {
		// reachability of the loop body under the invariant (a contradictory invariant or callee contract would
		// make every obligation inside the loop vacuous)
		c.addObl(&Obligation{Name: fmt.Sprintf("%s/loop%d/body-reachable", c.key, ord), Kind: "vacuity", Descr: "loop body reachable under its invariant",
			Pos: c.pos(node), Hyps: append([]string(nil), it.pc...), Goal: "false", Expect: "notunsat", Timeout: 2, Only: []string{"z3-new"}})
	}
	var decr0 string
	if ls.Decr != nil {
		env := c.specEnvAt(it, pos)
		decr0 = c.specEval(env, ls.Decr.Expr).T
	}
	var back []*State
	for _, ex := range body(it) {
		switch {
		case ex.kind == exNormal:
			back = append(back, ex.st)
		case ex.kind == exContinue && (ex.label == "" || ex.label == label):
			back = append(back, ex.st)
		case ex.kind == exBreak && (ex.label == "" || ex.label == label):
			exits = append(exits, Exit{kind: exNormal, st: ex.st})
		default:
			exits = append(exits, ex)
		}
	}
	var backPCs []string
	defer func() {
		// one obligation over all groups of back-edge states: some execution of the body reaches its end
		if len(ls.Inv) > 0 && !c.inTrial[node] && len(backPCs) > 0 && entryReachable {
			c.addObl(&Obligation{Name: fmt.Sprintf("%s/loop%d/backedge-reachable", c.key, ord), Kind: "vacuity", Descr: "some execution of the loop body reaches its end",
				Pos: c.pos(node), Hyps: nil, Goal: tNot(tOr(backPCs...)), Expect: "notunsat", Timeout: 2, Only: []string{"z3-new"}})
		}
	}()
	for _, b := range c.mergeStates(back) {
		var ends []*State
		if post != nil {
			for _, ex := range post(b) {
				if ex.kind == exNormal {
					ends = append(ends, ex.st)
				}
			}
		} else {
			ends = []*State{b}
		}
		for _, e := range ends {
			backPCs = append(backPCs, e.pcTerm())
		}
		for _, e := range ends {
			for i, inv := range ls.Inv {
				env := c.specEnvAt(e, pos)
				t := c.specBool(env, inv.Expr)
				c.addObl(&Obligation{Name: fmt.Sprintf("%s/loop%d/inv#%s/preserved", c.key, ord, clauseID(inv, i)), Kind: "loop-inv-preserved",
					Descr: "loop invariant preserved by the body", Pos: c.pos(node), Hyps: append([]string(nil), e.pc...), Goal: t, Clause: inv.Src})
			}
			if ls.Decr != nil {
				env := c.specEnvAt(e, pos)
				d1 := c.specEval(env, ls.Decr.Expr).T
				c.addObl(&Obligation{Name: fmt.Sprintf("%s/loop%d/decreases", c.key, ord), Kind: "loop-decreases",
					Descr: "loop variant decreases and is bounded below", Pos: c.pos(node), Hyps: append([]string(nil), e.pc...),
					Goal: tAnd(tApp("<", d1, decr0), tApp(">=", decr0, "0")), Clause: ls.Decr.Src})
			}
		}
	}
	return c.mergeExits(exits)
}

func clauseID(cl Clause, i int) string {
	if cl.Label != "" {
		return cl.Label
	}
	return fmt.Sprint(i + 1)
}

func (c *FnCtx) execFor(st *State, x *ast.ForStmt, label string) []Exit {
	if x.Init != nil {
		exs := c.exec(st, x.Init)
		if len(exs) != 1 || exs[0].kind != exNormal {
			return exs
		}
		st = exs[0].st
	}
	var cond func(*State) string
	if x.Cond != nil {
		cond = func(s *State) string { return c.eval(s, x.Cond).T }
	}
	var post func(*State) []Exit
	if x.Post != nil {
		post = func(s *State) []Exit { return c.exec(s, x.Post) }
	}
	return c.execLoop(st, x, label, x.Body, cond, func(s *State) []Exit { return c.exec(s, x.Body) }, post)
}

func (c *FnCtx) execRange(st *State, x *ast.RangeStmt, label string) []Exit {
	xt := c.typeOf(x.X)
	coll := c.eval(st, x.X)
	// hidden index variable
	idxObj := types.NewVar(x.Pos(), c.pkg.Types, fmt.Sprintf("range_i_%d", c.loopOrd[x]), types.Typ[types.Int])
	c.hiddenIdx[x] = idxObj
	st.vars[idxObj] = &Val{T: "0", S: SInt, Typ: types.Typ[types.Int]}
	isSeqLike := coll.S == SStr || isSeq(coll.S)
	var n string
	switch u := xt.Underlying().(type) {
	case *types.Basic:
		if u.Info()&types.IsInteger != 0 {
			n = coll.T
			isSeqLike = false
		} else if coll.S == SStr {
			n = c.seqLen(coll)
			c.assumeNote("range over string iterates bytes, not runes (" + c.pos(x) + ")")
		}
	case *types.Slice, *types.Array:
		if isSeqLike {
			n = c.seqLen(coll)
		}
	case *types.Pointer:
		if isSeqLike {
			n = c.seqLen(coll)
		}
	case *types.Map, *types.Chan, *types.Signature:
		n = ""
	}
	declKV := func(s *State, keyV, valV *Val) {
		set := func(e ast.Expr, v *Val) {
			if e == nil || v == nil {
				return
			}
			if id, ok := e.(*ast.Ident); ok {
				if id.Name == "_" {
					return
				}
				if x.Tok == token.DEFINE {
					c.declare(s, id, v)
					return
				}
			}
			c.assignTo(s, e, v)
		}
		set(x.Key, keyV)
		set(x.Value, valV)
	}
	if mt, ok := xt.Underlying().(*types.Map); ok && n == "" && !c.bodyTouchesMap(x.Body, mt) {
		// a map whose key set the body does not change: the loop visits every key exactly once, in an order given by
		// the uninterpreted sequence mseq(dom) - duplicate-free and covering exactly the keys present when the loop starts
		ks, _, mkey := c.mapKeys(mt)
		hd := c.heapGetS(st, mkey+".dom", arrSort(SInt, arrSort(ks, SBool)))
		dom := tApp("select", hd, coll.T)
		seqS := seqSort(ks)
		c.declSeq(seqS)
		sn := sortName(seqS)
		fseq, fpos := "mseq_"+sortName(ks), "mpos_"+sortName(ks)
		c.decls.declFun(fseq, []Sort{arrSort(ks, SBool)}, seqS)
		c.decls.declFun(fpos, []Sort{arrSort(ks, SBool), ks}, SInt)
		c.addFact(fmt.Sprintf("(forall ((d %s) (i Int)) (! (=> (and (<= 0 i) (< i (len_%s (%s d)))) (and (select d (at_%s (%s d) i)) (= (%s d (at_%s (%s d) i)) i))) :pattern ((at_%s (%s d) i))))", arrSort(ks, SBool), sn, fseq, sn, fseq, fpos, sn, fseq, sn, fseq))
		c.addFact(fmt.Sprintf("(forall ((d %s) (k %s)) (! (=> (select d k) (and (<= 0 (%s d k)) (< (%s d k) (len_%s (%s d))) (= (at_%s (%s d) (%s d k)) k))) :pattern ((select d k))))", arrSort(ks, SBool), ks, fpos, fpos, sn, fseq, sn, fseq, fpos))
		c.assumeNote("range over a map whose key set the body does not change visits every key present at the start exactly once (order arbitrary)")
		S := &Val{T: tApp(fseq, dom), S: seqS}
		n = c.seqLen(S)
		c.rangeLen[x] = n
		c.mapSeqOf[x] = S
		idxObj := types.NewVar(x.Pos(), c.pkg.Types, fmt.Sprintf("range_mi_%d", c.loopOrd[x]), types.Typ[types.Int])
		st.vars[idxObj] = &Val{T: "0", S: SInt, Typ: types.Typ[types.Int]}
		c.rangeIdx[x] = idxObj
		c.hiddenIdx[x] = idxObj
		cond := func(s *State) string { return tApp("<", s.vars[idxObj].T, n) }
		body := func(s *State) []Exit {
			i := s.vars[idxObj]
			s.assume(tAnd(tApp("<=", "0", i.T), tApp("<", i.T, n)))
			kv := &Val{T: c.seqAt(S, i.T), S: ks, Typ: mt.Key()}
			var vv *Val
			if x.Value != nil {
				v, present := c.mapLoad(s, coll, mt, kv)
				s.assume(present)
				vv = v
			}
			var kk *Val
			if x.Key != nil {
				kk = kv
			}
			declKV(s, kk, vv)
			return c.exec(s, x.Body)
		}
		post := func(s *State) []Exit {
			i := s.vars[idxObj]
			s.vars[idxObj] = &Val{T: tApp("+", i.T, "1"), S: SInt, Typ: i.Typ}
			return normal(s)
		}
		return c.execLoop(st, x, label, x.Body, cond, body, post)
	}
	if n == "" {
		// unordered / unknown iteration: arbitrary number of iterations with havoced key/value
		c.assumeNote("range over map/channel/func: iterations are arbitrary keys/values (" + c.pos(x) + ")")
		cond := func(s *State) string { return c.fresh("more", SBool) }
		body := func(s *State) []Exit {
			var kv, vv *Val
			if x.Key != nil {
				kv = c.havocVal(s, c.typeOf(x.Key), "rk")
			}
			if x.Value != nil {
				vv = c.havocVal(s, c.typeOf(x.Value), "rv")
			}
			if mt, ok := xt.Underlying().(*types.Map); ok && kv != nil {
				v, present := c.mapLoad(s, coll, mt, kv)
				s.assume(present)
				if vv != nil && v.S != SNone {
					vv = v
				}
			}
			declKV(s, kv, vv)
			return c.exec(s, x.Body)
		}
		return c.execLoop(st, x, label, x.Body, cond, body, nil)
	}
	// pre-declare key/value so invariants can mention them? They are only in scope inside the body.
	cond := func(s *State) string { return tApp("<", s.vars[idxObj].T, n) }
	body := func(s *State) []Exit {
		i := s.vars[idxObj]
		s.assume(tApp("<=", "0", i.T))
		kv := &Val{T: i.T, S: SInt, Typ: types.Typ[types.Int]}
		var vv *Val
		if x.Value != nil && isSeqLike {
			et := c.typeOf(x.Value)
			vv = &Val{T: c.seqAt(coll, i.T), S: elemSort(coll.S), Typ: et}
			if coll.S == SStr {
				if b, ok := xt.Underlying().(*types.Basic); ok && b.Info()&types.IsString != 0 {
					// rune: approximate by byte value
					vv.Typ = et
				}
			}
			if et != nil && c.sortOf(et) == SNone {
				vv = &Val{S: SNone, Typ: et, Box: vv.T, T: typeShortName(et)}
				vv = c.copyVal(s, vv)
			}
		}
		declKV(s, kv, vv)
		return c.exec(s, x.Body)
	}
	post := func(s *State) []Exit {
		i := s.vars[idxObj]
		s.vars[idxObj] = &Val{T: tApp("+", i.T, "1"), S: SInt, Typ: i.Typ}
		return normal(s)
	}
	// the hidden index is modified by the loop
	exits := c.execLoopRange(st, x, label, cond, body, post, idxObj, n)
	return exits
}

func (c *FnCtx) execLoopRange(st *State, x *ast.RangeStmt, label string, cond func(*State) string, body func(*State) []Exit,
	post func(*State) []Exit, idx types.Object, n string) []Exit {
	// implicit invariant 0 <= i <= n: added by wrapping cond/body
	c.rangeIdx[x] = idx
	c.rangeLen[x] = n
	return c.execLoop(st, x, label, x.Body, cond, body, post)
}

// sortOfHeapKey finds the element sort of a field heap "pkg.Type.field[.sub...]" from the type information (used to
// materialise heaps that a frame or a loop modifies before the path has read them).
func (c *FnCtx) sortOfHeapKey(k string) (Sort, bool) {
	if strings.HasPrefix(k, "ptr.") || strings.HasPrefix(k, "map.") || strings.HasPrefix(k, "*.") {
		return "", false
	}
	parts := strings.Split(k, ".")
	if len(parts) < 3 {
		return "", false
	}
	pk := c.V.pkgs[parts[0]]
	if pk == nil || pk.Types == nil {
		return "", false
	}
	o := pk.Types.Scope().Lookup(parts[1])
	if o == nil {
		return "", false
	}
	t := o.Type()
	for _, fn := range parts[2:] {
		stt, _ := structOf(t)
		if stt == nil {
			return "", false
		}
		var ft types.Type
		for i := 0; i < stt.NumFields(); i++ {
			if stt.Field(i).Name() == fn {
				ft = stt.Field(i).Type()
			}
		}
		if ft == nil {
			return "", false
		}
		t = ft
	}
	srt := c.sortOf(t)
	if srt == SNone {
		return "", false
	}
	return srt, true
}

// bodyTouchesMap: may the loop body change the key set of a map of this type? (syntactic: an assignment to an index
// expression of such a map, a delete or clear on it, or any call that is not known to leave maps of this type alone)
func (c *FnCtx) bodyTouchesMap(body ast.Node, mt *types.Map) bool {
	touched := false
	ast.Inspect(body, func(n ast.Node) bool {
		switch x := n.(type) {
		case *ast.AssignStmt:
			for _, l := range x.Lhs {
				if ie, ok := l.(*ast.IndexExpr); ok {
					if t := c.typeOf(ie.X); t != nil {
						if m2, ok := t.Underlying().(*types.Map); ok && types.Identical(m2, mt) {
							touched = true
						}
					}
				}
			}
		case *ast.CallExpr:
			ci := c.calleeOf(x)
			if ci.builtin == "delete" || ci.builtin == "clear" {
				touched = true
			}
			if ci.fn != nil && c.isRepoFunc(ci.fn) {
				touched = true // repo callees are not analysed for map writes here
			}
		}
		return true
	})
	return touched
}
