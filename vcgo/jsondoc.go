package main

// jsonDoc(x): a decision procedure for "the string term x is one valid JSON document, an object with a boolean member
// "ok" (and a member "err" when ok is false)", for terms that are concatenations of string literals and of opaque pieces
// whose JSON class is given by the ghost function that names them (contracts/extern/json.spec):
//   jsStr(s)   a complete JSON string token (what jsonString returns)
//   durStr(d)  characters that may stand inside a JSON string (time.Duration.String(): digits, letters, '.', 'µ')
//   itoaStr(n) a JSON number; boolStr(b) true|false; jsVal(x) any complete JSON value (json.Marshal output)
//   plainWord(s) characters that may stand inside a JSON string (a command word that was matched against literals)
// The structure of the term is walked and a streaming JSON recogniser is run over it. The answer is the SMT constant
// true, false, or - when the term has a piece of unknown shape - a fresh boolean (so that the obligation cannot be
// discharged). This evaluator is part of the trusted base (listed in the evidence).

import (
	"encoding/json"
	"fmt"
	"os"
	"strings"
)

type jsMode int

const (
	jmValue    jsMode = iota // a value is expected
	jmArrStart               // after '[': value or ']'
	jmObjStart               // after '{': key or '}'
	jmKey                    // after ',' in an object: key
	jmColon                  // after a key
	jmAfter                  // after a complete value
	jmInStr                  // inside a value string
	jmInStrEsc
	jmInKey
	jmInKeyEsc
	jmScalar // inside true/false/null/number
	jmDone
)

type jsRun struct {
	stack   []byte
	mode    jsMode
	scalar  []byte
	key     []byte // current key text at depth 1 ("?" for an opaque key)
	lastKey string // key of the member being read at depth 1
	okVal   int    // -1 unknown, 0 false, 1 true
	okSeen  bool
	errSeen bool
	err     string
}

func newJSRun() *jsRun { return &jsRun{mode: jmValue, okVal: -1} }

func (r *jsRun) fail(f string, a ...any) {
	if r.err == "" {
		r.err = fmt.Sprintf(f, a...)
	}
}

func (r *jsRun) valueDone() {
	if len(r.stack) == 0 {
		r.mode = jmDone
		return
	}
	r.mode = jmAfter
}

func (r *jsRun) endScalar() {
	txt := string(r.scalar)
	r.scalar = r.scalar[:0]
	if !json.Valid([]byte(txt)) {
		r.fail("%q is not a JSON value", txt)
		return
	}
	if len(r.stack) == 1 && r.stack[0] == '{' && r.lastKey == "ok" {
		switch txt {
		case "true":
			r.okVal, r.okSeen = 1, true
		case "false":
			r.okVal, r.okSeen = 0, true
		default:
			r.fail(`"ok" is not a boolean`)
		}
	}
	r.valueDone()
}

func (r *jsRun) startValue() {
	if len(r.stack) == 1 && r.stack[0] == '{' && r.lastKey == "err" {
		r.errSeen = true
	}
}

func (r *jsRun) feedByte(b byte) {
	if r.err != "" {
		return
	}
	switch r.mode {
	case jmInStr, jmInKey:
		switch {
		case b == '\\':
			r.mode++
		case b == '"':
			if r.mode == jmInKey {
				if len(r.stack) == 1 {
					r.lastKey = string(r.key)
				}
				r.mode = jmColon
			} else {
				r.valueDone()
			}
		case b < 0x20:
			r.fail("control character in a string")
		default:
			if r.mode == jmInKey {
				r.key = append(r.key, b)
			}
		}
		return
	case jmInStrEsc, jmInKeyEsc:
		if !strings.ContainsRune(`"\/bfnrtu`, rune(b)) {
			r.fail("bad escape \\%c", b)
		}
		r.mode--
		return
	case jmScalar:
		if b == ',' || b == '}' || b == ']' || b == ' ' || b == '\n' || b == '\t' || b == '\r' {
			r.endScalar()
			if r.err != "" {
				return
			}
			r.feedByte(b)
			return
		}
		r.scalar = append(r.scalar, b)
		return
	}
	if b == ' ' || b == '\n' || b == '\t' || b == '\r' {
		return
	}
	switch r.mode {
	case jmValue, jmArrStart:
		if r.mode == jmArrStart && b == ']' {
			r.stack = r.stack[:len(r.stack)-1]
			r.valueDone()
			return
		}
		r.startValue()
		switch {
		case b == '{':
			r.stack = append(r.stack, '{')
			r.mode = jmObjStart
		case b == '[':
			r.stack = append(r.stack, '[')
			r.mode = jmArrStart
		case b == '"':
			r.mode = jmInStr
		case b == '-' || (b >= '0' && b <= '9') || b == 't' || b == 'f' || b == 'n':
			r.scalar = append(r.scalar[:0], b)
			r.mode = jmScalar
		default:
			r.fail("unexpected %q where a value should start", b)
		}
	case jmObjStart, jmKey:
		switch {
		case b == '"':
			r.key = r.key[:0]
			r.mode = jmInKey
		case b == '}' && r.mode == jmObjStart:
			r.stack = r.stack[:len(r.stack)-1]
			r.valueDone()
		default:
			r.fail("unexpected %q where a key should start", b)
		}
	case jmColon:
		if b != ':' {
			r.fail("unexpected %q after a key", b)
			return
		}
		r.mode = jmValue
	case jmAfter:
		top := r.stack[len(r.stack)-1]
		switch {
		case b == ',' && top == '{':
			r.mode = jmKey
		case b == ',' && top == '[':
			r.mode = jmValue
		case b == '}' && top == '{', b == ']' && top == '[':
			r.stack = r.stack[:len(r.stack)-1]
			r.valueDone()
		default:
			r.fail("unexpected %q after a value", b)
		}
	case jmDone:
		r.fail("text after the document")
	}
}

// feedToken: an opaque piece of a known class.
func (r *jsRun) feedToken(class string) {
	if r.err != "" {
		return
	}
	switch class {
	case "plain": // characters without quote, backslash or control characters
		switch r.mode {
		case jmInStr:
		case jmInKey:
			r.key = append(r.key, '?')
		default:
			r.fail("unquoted text where JSON syntax is expected")
		}
	case "string":
		switch r.mode {
		case jmValue, jmArrStart:
			r.startValue()
			if len(r.stack) == 1 && r.stack[0] == '{' && r.lastKey == "ok" {
				r.fail(`"ok" is not a boolean`)
			}
			r.valueDone()
		case jmObjStart, jmKey:
			if len(r.stack) == 1 {
				r.lastKey = "?"
			}
			r.mode = jmColon
		default:
			r.fail("a string token where it cannot stand")
		}
	case "number", "bool", "value":
		switch r.mode {
		case jmValue, jmArrStart:
			r.startValue()
			if len(r.stack) == 1 && r.stack[0] == '{' && r.lastKey == "ok" {
				if class == "bool" {
					r.okSeen = true // boolean of unknown value
				} else {
					r.fail(`"ok" is not a boolean`)
				}
			}
			r.valueDone()
		default:
			r.fail("a value where it cannot stand")
		}
	}
}

func (r *jsRun) finish() (bool, string) {
	if r.err != "" {
		return false, r.err
	}
	if r.mode == jmScalar && len(r.stack) == 0 {
		r.endScalar()
	}
	if r.err != "" {
		return false, r.err
	}
	if r.mode != jmDone {
		return false, "the document is not complete"
	}
	if !r.okSeen {
		return false, `no boolean member "ok" at the top level`
	}
	if r.okVal == 0 && !r.errSeen {
		return false, `"ok":false without "err"`
	}
	return true, ""
}

var jsonClassOf = map[string]string{
	"gf_jsStr": "string", "gf_durStr": "plain", "gf_itoaStr": "number", "gf_boolStr": "bool", "gf_jsVal": "value", "gf_jsValOf": "value", "gf_plainWord": "plain",
}

// jsonWalk feeds the pieces of the string term t to the recogniser; false = a piece of unknown shape.
func (c *FnCtx) jsonWalk(st *State, t string, r *jsRun, depth int) bool {
	if depth > 200 {
		return false
	}
	if t == "empty_Str" {
		return true
	}
	if strings.HasPrefix(t, "lit!") {
		for s, n := range c.lits {
			if n == t {
				for i := 0; i < len(s); i++ {
					r.feedByte(s[i])
				}
				return true
			}
		}
		return false
	}
	// a name introduced for a long term, or a variable known to equal a literal
	for long, n := range c.named {
		if n == t {
			return c.jsonWalk(st, long, r, depth+1)
		}
	}
	if l := st.litOf(t); l != "" && l != t {
		return c.jsonWalk(st, l, r, depth+1)
	}
	p := sexpArgs(t)
	if len(p) == 0 {
		// a result constant: look for the equation a callee's postcondition gave for it
		if def := c.definitionOf(st, t); def != "" {
			return c.jsonWalk(st, def, r, depth+1)
		}
		return false
	}
	switch p[0] {
	case "cat_Str":
		if len(p) == 3 {
			return c.jsonWalk(st, p[1], r, depth+1) && c.jsonWalk(st, p[2], r, depth+1)
		}
	case "app1_Str":
		if len(p) == 3 {
			if !c.jsonWalk(st, p[1], r, depth+1) {
				return false
			}
			var b int
			if _, err := fmt.Sscanf(p[2], "%d", &b); err != nil || b < 0 || b > 255 {
				return false
			}
			r.feedByte(byte(b))
			return true
		}
	case "gf_respStr", "gf_respSimple":
		if len(p) == 2 {
			return c.jsonWalk(st, p[1], r, depth+1)
		}
	default:
		if cl, ok := jsonClassOf[p[0]]; ok {
			r.feedToken(cl)
			return true
		}
	}
	return false
}

// jsonDocTerm decides jsonDoc for a term.
func (c *FnCtx) jsonDocTerm(st *State, t string) string {
	r := c.jsonDocTerm1(st, t)
	if os.Getenv("VCGO_DEBUG") != "" {
		fmt.Fprintf(os.Stderr, "jsonDoc(%.300s) = %.120s\n", t, r)
	}
	return r
}

func (c *FnCtx) jsonDocTerm1(st *State, t string) string {
	// a reply chosen by a switch: (ite c a b), possibly behind a merge name
	if p := sexpArgs(t); len(p) == 4 && p[0] == "ite" {
		return tIte(p[1], c.jsonDocTerm(st, p[2]), c.jsonDocTerm(st, p[3]))
	}
	if len(sexpArgs(t)) == 0 && !strings.HasPrefix(t, "lit!") {
		if def := c.definitionOf(st, t); def != "" {
			if p := sexpArgs(def); len(p) == 4 && p[0] == "ite" {
				return c.jsonDocTerm(st, def)
			}
		}
	}
	r := newJSRun()
	if !c.jsonWalk(st, t, r, 0) {
		// not decidable from the structure: the uninterpreted predicate (what a callee's contract may have established)
		fn := "gf_jsonDocOK_" + sanitizeSym(sortName(jsonDocSort))
		c.decls.declFun(fn, []Sort{jsonDocSort}, SBool)
		return tApp(fn, t)
	}
	ok, why := r.finish()
	if ok {
		return "true"
	}
	c.warn("jsonDoc: not a well-formed reply: %s (term %.200s)", why, t)
	return "false"
}

// definitionOf finds an assumed equation (= t X) or (= X t) on the current path (X a compound term).
func (c *FnCtx) definitionOf(st *State, t string) string {
	var look func(f string, depth int) string
	look = func(f string, depth int) string {
		if depth > 6 {
			return ""
		}
		for _, cj := range topConjuncts(f) {
			p := sexpArgs(cj)
			if len(p) == 3 && p[0] == "=" {
				if p[1] == t && strings.HasPrefix(p[2], "(") {
					return p[2]
				}
				if p[2] == t && strings.HasPrefix(p[1], "(") {
					return p[1]
				}
				// result constant equated with another constant (a value handed through a contract): follow it
				if p[1] == t && p[2] != t && atomOrder(p[2], t) {
					return p[2]
				}
				if p[2] == t && p[1] != t && atomOrder(p[1], t) {
					return p[1]
				}
			}
			if len(p) == 3 && p[0] == "=" && strings.HasPrefix(p[2], "(and ") && strings.HasPrefix(p[1], "mc!") {
				// a merge condition is defined as the conjunction of the facts of its branch
				if d := look(p[2], depth+1); d != "" {
					return d
				}
			}
			if len(p) == 3 && p[0] == "=>" {
				// an equation that a merged branch brought along under its merge condition; the reply term that
				// mentions t is selected under the same condition
				if d := look(p[2], depth+1); d != "" {
					return d
				}
			}
			if len(p) == 0 {
				// a named conjunction
				for long, n := range c.named {
					if n == cj {
						if d := look(long, depth+1); d != "" {
							return d
						}
					}
				}
			}
		}
		return ""
	}
	for i := len(st.pc) - 1; i >= 0; i-- {
		if d := look(st.pc[i], 0); d != "" {
			return d
		}
	}
	for i := len(c.facts) - 1; i >= 0; i-- {
		if d := look(c.facts[i], 0); d != "" {
			return d
		}
	}
	return ""
}

// atomOrder: follow an equation between two constants only towards the older one (smaller serial number), so that the
// walk terminates.
func atomOrder(to, from string) bool {
	if strings.HasPrefix(to, "(") {
		return false
	}
	if strings.HasPrefix(to, "lit!") || to == "empty_Str" {
		return true
	}
	num := func(s string) int {
		i := strings.LastIndex(s, "!")
		n := 0
		if i >= 0 {
			fmt.Sscanf(s[i+1:], "%d", &n)
		}
		return n
	}
	return num(to) > 0 && num(to) < num(from)
}
