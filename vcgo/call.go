package main

// Calls: builtins, conversions, closures (inlined), callees by contract.

import (
	"fmt"
	"go/ast"
	"go/token"
	"go/types"
	"os"
	"regexp"
	"strconv"
	"strings"
)

type calleeInfo struct {
	builtin string
	conv    bool
	convTo  types.Type
	fn      *types.Func
	recv    ast.Expr // receiver expression for methods
	lit     *ast.FuncLit
	local   types.Object // local variable of function type
	field   bool         // call through a func-typed struct field
}

func (c *FnCtx) calleeOf(call *ast.CallExpr) calleeInfo {
	fun := call.Fun
	for {
		if p, ok := fun.(*ast.ParenExpr); ok {
			fun = p.X
			continue
		}
		break
	}
	if tv, ok := c.info.Types[fun]; ok && tv.IsType() {
		return calleeInfo{conv: true, convTo: tv.Type}
	}
	switch f := fun.(type) {
	case *ast.FuncLit:
		return calleeInfo{lit: f}
	case *ast.Ident:
		switch o := c.info.Uses[f].(type) {
		case *types.Builtin:
			return calleeInfo{builtin: o.Name()}
		case *types.Func:
			return calleeInfo{fn: o}
		case *types.Var:
			return calleeInfo{local: o}
		case *types.TypeName:
			return calleeInfo{conv: true, convTo: o.Type()}
		}
	case *ast.SelectorExpr:
		if sel := c.info.Selections[f]; sel != nil {
			switch sel.Kind() {
			case types.MethodVal:
				fn, _ := sel.Obj().(*types.Func)
				return calleeInfo{fn: fn, recv: f.X}
			case types.FieldVal:
				return calleeInfo{field: true}
			}
		}
		switch o := c.info.Uses[f.Sel].(type) {
		case *types.Func:
			return calleeInfo{fn: o}
		case *types.Var:
			return calleeInfo{local: o}
		case *types.TypeName:
			return calleeInfo{conv: true, convTo: o.Type()}
		}
	case *ast.IndexExpr: // generic instantiation
		inner := &ast.CallExpr{Fun: f.X, Args: call.Args}
		return c.calleeOf(inner)
	case *ast.ArrayType, *ast.MapType, *ast.InterfaceType, *ast.StarExpr, *ast.ChanType, *ast.FuncType:
		return calleeInfo{conv: true, convTo: c.typeOf(fun)}
	}
	return calleeInfo{}
}

func (c *FnCtx) evalCall(st *State, call *ast.CallExpr) []*Val {
	ci := c.calleeOf(call)
	switch {
	case ci.conv:
		return []*Val{c.convert(st, call, ci.convTo)}
	case ci.builtin != "":
		return c.evalBuiltin(st, call, ci.builtin)
	case ci.lit != nil:
		var args []*Val
		for _, a := range call.Args {
			args = append(args, c.copyVal(st, c.eval(st, a)))
		}
		return c.inlineLit(st, ci.lit, args, call)
	case ci.local != nil:
		fv := c.evalLocalFn(st, ci.local)
		var args []*Val
		for _, a := range call.Args {
			args = append(args, c.copyVal(st, c.eval(st, a)))
		}
		if fv != nil && fv.Fn != nil {
			c.atCallHooks(st, call, "local."+ci.local.Name(), args)
			return c.inlineLit(st, fv.Fn, args, call)
		}
		if fv != nil && fv.FnObj != nil {
			return c.callFunc(st, call, fv.FnObj, fv.Recv, args)
		}
		if pv, ok := ci.local.(*types.Var); ok && c.isParam(pv) {
			return c.traceCallback(st, call, pv, args)
		}
		if fv != nil && fv.Ext {
			return c.havocResults(st, c.typeOf(call))
		}
		return c.callUnknown(st, call, "call through function value "+ci.local.Name())
	case ci.fn != nil:
		var recv *Val
		if ci.recv != nil {
			recv = c.eval(st, ci.recv)
			// auto address-of for pointer receivers on addressable values
			if sig, ok := ci.fn.Type().(*types.Signature); ok && sig.Recv() != nil {
				if _, isPtr := sig.Recv().Type().Underlying().(*types.Pointer); isPtr && recv.S == SNone {
					recv = c.addrOfVal(st, ci.recv, recv)
				}
			}
		}
		var args []*Val
		if len(call.Args) == 1 {
			if tup, ok := c.typeOf(call.Args[0]).(*types.Tuple); ok && tup.Len() > 1 {
				args = c.evalMulti(st, call.Args[0], tup.Len())
			}
		}
		if args == nil {
			for _, a := range call.Args {
				args = append(args, c.copyVal(st, c.eval(st, a)))
			}
		}
		if call.Ellipsis == token.NoPos {
			args = c.packVariadic(st, ci.fn, args)
		}
		c.curRecvExpr = ci.recv
		rs := c.callFunc(st, call, ci.fn, recv, args)
		c.curRecvExpr = nil
		return rs
	}
	for _, a := range call.Args {
		c.eval(st, a)
	}
	return c.callUnknown(st, call, "unresolved callee")
}

func (c *FnCtx) addrOfVal(st *State, e ast.Expr, v *Val) *Val {
	if v.Box != "" {
		return &Val{T: v.Box, S: SInt, Typ: types.NewPointer(v.Typ)}
	}
	if id, ok := e.(*ast.Ident); ok {
		_ = id
		return c.addrOf(st, e)
	}
	if se, ok := e.(*ast.SelectorExpr); ok {
		return c.addrOf(st, se)
	}
	return c.havocVal(st, types.NewPointer(v.Typ), "autoaddr")
}

func (c *FnCtx) evalLocalFn(st *State, o types.Object) *Val {
	if v, ok := st.vars[o]; ok {
		return v
	}
	return nil
}

// packVariadic packs trailing args into a sequence for variadic callees
func (c *FnCtx) packVariadic(st *State, fn *types.Func, args []*Val) []*Val {
	sig, ok := fn.Type().(*types.Signature)
	if !ok || !sig.Variadic() {
		return args
	}
	np := sig.Params().Len()
	if len(args) < np-1 {
		return args
	}
	vt := sig.Params().At(np - 1).Type()
	s := c.sortOf(vt)
	fixed := append([]*Val(nil), args[:np-1]...)
	rest := args[np-1:]
	if !isSeq(s) && s != SStr {
		return append(fixed, c.havocVal(st, vt, "variadic"))
	}
	c.declSeq(s)
	seq := c.fresh("va_"+sortName(s), s)
	st.assume(tEq(tApp("len_"+sortName(s), seq), tInt(int64(len(rest)))))
	for i, r := range rest {
		if r.S == SNone {
			if r.Typ == nil || elemSort(s) != SInt {
				continue
			}
			if _, isStruct := r.Typ.Underlying().(*types.Struct); !isStruct {
				continue
			}
			r = c.structToRef(st, r) // a struct passed variadically: the element is a reference to its fields
		}
		es := elemSort(s)
		ev := c.coerce(r, es)
		if ev.S != es {
			if es == SInt {
				ev = c.box(ev)
			} else {
				continue
			}
		}
		st.assume(tEq(tApp("at_"+sortName(s), seq, tInt(int64(i))), ev.T))
	}
	return append(fixed, &Val{T: seq, S: s, Typ: vt})
}

func (c *FnCtx) callUnknown(st *State, call *ast.CallExpr, why string) []*Val {
	c.warn("%s at %s: results havoced, heap havoced", why, c.pos(call))
	ms := newModSet()
	ms.all = true
	c.havoc(st, ms, "unk")
	return c.havocResults(st, c.typeOf(call))
}

func (c *FnCtx) havocResults(st *State, t types.Type) []*Val {
	if t == nil {
		return nil
	}
	if tup, ok := t.(*types.Tuple); ok {
		var rs []*Val
		for i := 0; i < tup.Len(); i++ {
			rs = append(rs, c.havocVal(st, tup.At(i).Type(), "r"))
		}
		return rs
	}
	return []*Val{c.havocVal(st, t, "r")}
}

func (c *FnCtx) convert(st *State, call *ast.CallExpr, to types.Type) *Val {
	if len(call.Args) != 1 {
		return c.havocVal(st, to, "conv")
	}
	v := c.eval(st, call.Args[0])
	ts := c.sortOf(to)
	from := v.Typ
	switch {
	case v.S == ts && ts == SInt:
		// integer to integer: wrap into the target range when narrowing
		nv := &Val{T: v.T, S: SInt, Typ: to, Fn: v.Fn, FnObj: v.FnObj, Recv: v.Recv}
		if tb, ok := to.Underlying().(*types.Basic); ok && tb.Info()&types.IsInteger != 0 {
			if fb, ok2 := typeBasic(from); ok2 && fb.Info()&types.IsInteger != 0 {
				if intNarrowing(fb, tb) {
					return c.wrapConv(nv, tb)
				}
			}
		}
		return nv
	case v.S == ts && v.S != SNone:
		return &Val{T: v.T, S: ts, Typ: to}
	case v.S == SNone && ts == SNone:
		return &Val{S: SNone, Typ: to, Fields: v.Fields, Box: v.Box, T: v.T}
	case v.S == SInt && ts == SReal:
		return &Val{T: tApp("to_real", v.T), S: SReal, Typ: to}
	case v.S == SReal && ts == SInt:
		// truncation toward zero
		t := fmt.Sprintf("(ite (>= %s 0.0) (to_int %s) (- (to_int (- %s))))", v.T, v.T, v.T)
		c.assumeNote("float→int conversion is mathematical truncation (no overflow/NaN behaviour)")
		return &Val{T: t, S: SInt, Typ: to}
	case v.S == SInt && ts == SStr:
		// string(rune)
		c.declSeq(SStr)
		r := c.fresh("runestr", SStr)
		st.assume(tImp(tAnd(tApp("<=", "0", v.T), tApp("<", v.T, "128")), tAnd(tEq(tApp("len_Str", r), "1"), tEq(tApp("at_Str", r, "0"), v.T))))
		st.assume(tApp(">=", tApp("len_Str", r), "1"))
		return &Val{T: r, S: SStr, Typ: to}
	case isFP(v.S) && isFP(ts):
		return &Val{T: fmt.Sprintf("((_ to_fp %s) RNE %s)", fpDims(ts), v.T), S: ts, Typ: to}
	}
	c.warn("unsupported conversion %s -> %s at %s", v.S, ts, c.pos(call))
	return c.havocVal(st, to, "conv")
}

func typeBasic(t types.Type) (*types.Basic, bool) {
	if t == nil {
		return nil, false
	}
	b, ok := t.Underlying().(*types.Basic)
	return b, ok
}

func intBits(b *types.Basic) (bits int, signed bool) {
	switch b.Kind() {
	case types.Int8:
		return 8, true
	case types.Uint8:
		return 8, false
	case types.Int16:
		return 16, true
	case types.Uint16:
		return 16, false
	case types.Int32:
		return 32, true
	case types.Uint32:
		return 32, false
	case types.Int64, types.Int:
		return 64, true
	case types.Uint64, types.Uint, types.Uintptr:
		return 64, false
	case types.UntypedInt, types.UntypedRune:
		return 64, true
	}
	return 64, true
}

func intNarrowing(from, to *types.Basic) bool {
	fb, fs := intBits(from)
	tb, ts := intBits(to)
	if fb == tb && fs == ts {
		return false
	}
	if ts && (tb > fb || (tb == fb && fs)) {
		return false
	}
	if !ts && !fs && tb >= fb {
		return false
	}
	return true
}

func (c *FnCtx) wrapConv(v *Val, to *types.Basic) *Val {
	bits, signed := intBits(to)
	m := pow2(bits)
	if !signed {
		return &Val{T: tApp("mod", v.T, m), S: SInt, Typ: v.Typ}
	}
	h := pow2(bits - 1)
	// ((x + 2^(b-1)) mod 2^b) - 2^(b-1)
	return &Val{T: tApp("-", tApp("mod", tApp("+", v.T, h), m), h), S: SInt, Typ: v.Typ}
}

func (c *FnCtx) evalBuiltin(st *State, call *ast.CallExpr, name string) []*Val {
	t := c.typeOf(call)
	switch name {
	case "len", "cap":
		v := c.eval(st, call.Args[0])
		if v.S == SStr || isSeq(v.S) {
			if name == "cap" {
				cp := c.fresh("cap", SInt)
				st.assume(tApp(">=", cp, c.seqLen(v)))
				return []*Val{{T: cp, S: SInt, Typ: t}}
			}
			return []*Val{{T: c.seqLen(v), S: SInt, Typ: t}}
		}
		if mt, ok := v.Typ.Underlying().(*types.Map); ok {
			_, _, key := c.mapKeys(mt)
			fn := "maplen_" + sanitizeSym(key)
			ks, _, _ := c.mapKeys(mt)
			c.decls.declFun(fn, []Sort{arrSort(ks, SBool)}, SInt)
			hd := c.heapGetS(st, key+".dom", arrSort(SInt, arrSort(ks, SBool)))
			r := tApp(fn, tApp("select", hd, v.T))
			st.assume(tApp(">=", r, "0"))
			return []*Val{{T: r, S: SInt, Typ: t}}
		}
		r := c.havocVal(st, t, "len")
		st.assume(tApp(">=", r.T, "0"))
		return []*Val{r}
	case "append":
		base := c.eval(st, call.Args[0])
		if base.S != SStr && !isSeq(base.S) {
			for _, a := range call.Args[1:] {
				c.eval(st, a)
			}
			return []*Val{c.havocVal(st, t, "append")}
		}
		c.declSeq(base.S)
		n := sortName(base.S)
		cur := base.T
		if call.Ellipsis != token.NoPos && len(call.Args) == 2 {
			o := c.eval(st, call.Args[1])
			if o.S == base.S {
				return []*Val{{T: tApp("cat_"+n, cur, o.T), S: base.S, Typ: t}}
			}
			return []*Val{c.havocVal(st, t, "append")}
		}
		for _, a := range call.Args[1:] {
			ev := c.eval(st, a)
			if ev.S == SNone {
				ev = c.structToRef(st, c.copyVal(st, ev))
			}
			cur = tApp("app1_"+n, cur, c.coerce(ev, elemSort(base.S)).T)
		}
		return []*Val{{T: cur, S: base.S, Typ: t}}
	case "copy":
		dst := c.eval(st, call.Args[0])
		src := c.eval(st, call.Args[1])
		r := c.fresh("copied", SInt)
		if (dst.S == SStr || isSeq(dst.S)) && (src.S == SStr || isSeq(src.S)) {
			ld, lsrc := c.seqLen(dst), c.seqLen(src)
			st.assume(tEq(r, tIte(tApp("<", ld, lsrc), ld, lsrc)))
			// destination content changes: new value with same length; first r elements from src
			n := sortName(dst.S)
			ns := c.fresh("cpy_"+n, dst.S)
			st.assume(tEq(tApp("len_"+n, ns), ld))
			if dst.S == src.S {
				st.assume(fmt.Sprintf("(forall ((k Int)) (! (= (at_%s %s k) (ite (and (<= 0 k) (< k %s)) (at_%s %s k) (at_%s %s k))) :pattern ((at_%s %s k))))", n, ns, r, n, src.T, n, dst.T, n, ns))
			}
			c.assignTo(st, call.Args[0], &Val{T: ns, S: dst.S, Typ: dst.Typ})
			c.assumeNote("copy() updates only the named destination slice (no aliasing through shared backing arrays)")
		}
		return []*Val{{T: r, S: SInt, Typ: t}}
	case "make":
		mt := c.typeOf(call.Args[0])
		s := c.sortOf(mt)
		switch mt.Underlying().(type) {
		case *types.Slice:
			var ln *Val
			if len(call.Args) > 1 {
				ln = c.eval(st, call.Args[1])
			}
			if len(call.Args) > 2 {
				c.eval(st, call.Args[2])
			}
			if s != SStr && !isSeq(s) {
				return []*Val{c.havocVal(st, mt, "make")}
			}
			c.declSeq(s)
			n := sortName(s)
			seq := c.fresh("mk_"+n, s)
			if ln != nil {
				if c.nopanic {
					// a length beyond 2^48 makes the runtime panic (makeslice: len out of range); sequences are at most 2^47 long
					c.oblig(st, "make", "make: length non-negative and within the allocator's range", call, tAnd(tApp(">=", ln.T, "0"), tApp("<=", ln.T, "281474976710656")), "")
				}
				st.assume(tEq(tApp("len_"+n, seq), ln.T))
			}
			zero := c.zeroVal(mt.Underlying().(*types.Slice).Elem())
			if zero.S != SNone {
				st.assume(fmt.Sprintf("(forall ((k Int)) (! (= (at_%s %s k) %s) :pattern ((at_%s %s k))))", n, seq, zero.T, n, seq))
			}
			return []*Val{{T: seq, S: s, Typ: mt}}
		case *types.Map:
			u := mt.Underlying().(*types.Map)
			ref := c.newRef(st, "mkmap")
			ks, _, key := c.mapKeys(u)
			hd := c.heapGetS(st, key+".dom", arrSort(SInt, arrSort(ks, SBool)))
			st.heap[key+".dom"] = tApp("store", hd, ref, fmt.Sprintf("((as const %s) false)", arrSort(ks, SBool)))
			return []*Val{{T: ref, S: SInt, Typ: mt}}
		case *types.Chan:
			return []*Val{{T: c.newRef(st, "mkchan"), S: SInt, Typ: mt}}
		}
		return []*Val{c.havocVal(st, mt, "make")}
	case "new":
		nt := c.typeOf(call.Args[0])
		ref := c.newRef(st, "new")
		if c.sortOf(nt) == SNone {
			c.storeStruct(st, ref, typeShortName(nt), "", nt, c.zeroVal(nt))
		} else {
			s := c.sortOf(nt)
			key := c.ptrKey(nt)
			h := c.heapGet(st, key, s)
			st.heap[key] = tApp("store", h, ref, c.zeroVal(nt).T)
		}
		return []*Val{{T: ref, S: SInt, Typ: types.NewPointer(nt)}}
	case "delete":
		m := c.eval(st, call.Args[0])
		k := c.eval(st, call.Args[1])
		if mt, ok := m.Typ.Underlying().(*types.Map); ok {
			ks, _, key := c.mapKeys(mt)
			hd := c.heapGetS(st, key+".dom", arrSort(SInt, arrSort(ks, SBool)))
			st.heap[key+".dom"] = tApp("store", hd, m.T, tApp("store", tApp("select", hd, m.T), k.T, "false"))
		}
		return nil
	case "min", "max":
		a := c.eval(st, call.Args[0])
		for _, e := range call.Args[1:] {
			b := c.eval(st, e)
			op := "<"
			if name == "max" {
				op = ">"
			}
			a = &Val{T: tIte(tApp(op, a.T, b.T), a.T, b.T), S: a.S, Typ: t}
		}
		return []*Val{a}
	case "panic":
		for _, a := range call.Args {
			c.eval(st, a)
		}
		if c.nopanic && !c.con.Flags["allow-explicit-panic"] {
			c.oblig(st, "panic", "explicit panic unreachable", call, "false", "")
		}
		st.assume("false")
		return nil
	case "recover":
		return []*Val{c.havocVal(st, t, "recover")}
	case "print", "println", "clear", "close":
		for _, a := range call.Args {
			c.eval(st, a)
		}
		return nil
	case "real", "imag", "complex":
		return []*Val{c.havocVal(st, t, name)}
	}
	c.warn("builtin %s at %s: havoc", name, c.pos(call))
	return c.havocResults(st, t)
}

type frame struct {
	results []types.Object
}

// inlineLit executes a function literal body in the current state (closures capture by reference).
func (c *FnCtx) inlineLit(st *State, lit *ast.FuncLit, args []*Val, at ast.Node) []*Val {
	sig, _ := c.typeOf(lit).(*types.Signature)
	return c.inlineBody(st, lit, sig, args, at)
}

func (c *FnCtx) inlineBody(st *State, lit *ast.FuncLit, sig *types.Signature, args []*Val, at ast.Node) []*Val {
	if c.depth > 12 {
		c.warn("closure inlining too deep at %s: havoc", c.pos(at))
		return c.callUnknown(st, &ast.CallExpr{Fun: lit}, "deep closure")
	}
	c.depth++
	defer func() { c.depth-- }()
	// bind params
	i := 0
	for _, f := range lit.Type.Params.List {
		for _, n := range f.Names {
			if i < len(args) {
				if o := c.info.Defs[n]; o != nil {
					st.vars[o] = args[i]
				}
			}
			i++
		}
		if len(f.Names) == 0 {
			i++
		}
	}
	fr := &frame{}
	if lit.Type.Results != nil {
		k := 0
		for _, f := range lit.Type.Results.List {
			if len(f.Names) == 0 {
				o := types.NewVar(lit.Pos(), c.pkg.Types, fmt.Sprintf("litres%d", k), sig.Results().At(k).Type())
				st.vars[o] = c.zeroVal(o.Type())
				fr.results = append(fr.results, o)
				k++
				continue
			}
			for _, n := range f.Names {
				o := c.info.Defs[n]
				st.vars[o] = c.zeroVal(o.Type())
				fr.results = append(fr.results, o)
				k++
			}
		}
	}
	c.frames = append(c.frames, fr)
	savedDefers := st.defers
	st.defers = nil
	exits := c.execBlock(st, lit.Body.List)
	c.frames = c.frames[:len(c.frames)-1]
	var ends []*State
	for _, ex := range exits {
		switch ex.kind {
		case exNormal, exReturn:
			for _, s2 := range c.runDefers(ex.st) {
				s2.defers = savedDefers
				ends = append(ends, s2)
			}
		case exPanic:
		default:
			c.warn("break/continue escaping a closure at %s", c.pos(at))
		}
	}
	if len(ends) == 0 {
		st.pc = append(st.pc, "false")
		return c.havocResults(st, sig.Results())
	}
	m := c.merge(ends)
	*st = *m
	var out []*Val
	for _, o := range fr.results {
		out = append(out, st.vars[o])
	}
	return out
}

// runDefers executes the deferred calls of a state (LIFO); may fork.
func (c *FnCtx) runDefers(st *State) []*State {
	ds := st.defers
	st.defers = nil
	live := []*State{st}
	for i := len(ds) - 1; i >= 0; i-- {
		d := ds[i]
		var next []*State
		for _, l := range live {
			if d.lit != nil {
				c.inlineLit(l, d.lit, nil, d.call)
			} else {
				ci := c.calleeOf(d.call)
				if ci.fn != nil {
					c.callFunc(l, d.call, ci.fn, d.recv, d.args)
				} else if ci.local != nil {
					if fv := c.evalLocalFn(l, ci.local); fv != nil && fv.Fn != nil {
						c.inlineLit(l, fv.Fn, d.args, d.call)
					} else if fv != nil && fv.Ext {
						// function value made by external code: cannot touch repo state
					} else {
						c.callUnknown(l, d.call, "deferred call through function value")
					}
				} else if ci.builtin != "" {
					// e.g. defer close(ch)
				} else {
					c.callUnknown(l, d.call, "deferred call")
				}
			}
			if !c.diverged(l) {
				next = append(next, l)
			}
		}
		live = next
	}
	return live
}

// callFunc applies the callee's contract (or havocs).
func (c *FnCtx) callFunc(st *State, call *ast.CallExpr, fn *types.Func, recv *Val, args []*Val) []*Val {
	key := typesFuncKey(fn)
	for _, a := range args {
		if a != nil && a.S == SInt {
			c.escaped[a.T] = true
		}
	}
	if recv != nil && recv.S == SInt {
		c.escaped[recv.T] = true
	}
	sig, _ := fn.Type().(*types.Signature)
	con := c.V.specs.Contracts[key]
	if con != nil && con.Flags["sweep-only"] {
		con = nil
	}
	if con == nil {
		// interface method: try "<pkg>.<Iface>.<m>" already; else fall back
		return c.callNoContract(st, call, fn, recv, args, key)
	}
	inlineHere := con.Flags["inline"]
	for f := range con.Flags {
		if strings.HasPrefix(f, "inline-in:") {
			for _, k := range strings.Split(f[len("inline-in:"):], ",") {
				if k = strings.TrimSpace(k); k != "" && (c.key == k || shortKey(c.key) == k) {
					inlineHere = true
				}
			}
		}
	}
	if inlineHere && c.inlining[key] >= 2 {
		// recursion: beyond two nested activations the callee is replaced by its inferred effects
		if ef := c.V.effects[key]; ef != nil {
			return c.callByEffects(st, call, fn, recv, args, key, ef)
		}
	}
	if inlineHere {
		if fd := c.V.funcs[key]; fd != nil && c.V.funcPkg[key] == c.pkg && fd.Body != nil {
			c.inlining[key]++
			defer func() { c.inlining[key]-- }()
			c.usedCons[key+" (inlined)"] = true
			if fd.Recv != nil && len(fd.Recv.List) > 0 && len(fd.Recv.List[0].Names) > 0 && recv != nil {
				if o := c.info.Defs[fd.Recv.List[0].Names[0]]; o != nil {
					st.vars[o] = recv
				}
			}
			return c.inlineBody(st, &ast.FuncLit{Type: fd.Type, Body: fd.Body}, sig, args, call)
		}
		c.warn("inline %s: only same-package functions without receiver can be inlined", key)
	}
	c.usedCons[key] = true
	// bind names
	bind := map[string]*Val{}
	absPtr := map[string]string{} // parameter name -> reference, for receivers that point to an abstract container
	absKey := map[string]string{}
	names := con.Params
	if len(names) == 0 {
		if sig.Recv() != nil {
			rn := sig.Recv().Name()
			if fd := c.V.funcs[key]; fd != nil && fd.Recv != nil && len(fd.Recv.List) > 0 && len(fd.Recv.List[0].Names) > 0 {
				rn = fd.Recv.List[0].Names[0].Name
			}
			names = append(names, rn)
		}
		for i := 0; i < sig.Params().Len(); i++ {
			names = append(names, sig.Params().At(i).Name())
		}
	}
	all := args
	if sig.Recv() != nil {
		all = append([]*Val{recv}, args...)
	}
	for i, n := range names {
		if i < len(all) && n != "" && n != "_" && all[i] != nil {
			a := all[i]
			pi := i
			if sig.Recv() != nil {
				pi = i - 1
			}
			if pi >= 0 && pi < sig.Params().Len() {
				if _, isIface := sig.Params().At(pi).Type().Underlying().(*types.Interface); isIface && a.S != SInt && a.S != SNone {
					a = c.box(a)
				}
				if !(sig.Variadic() && pi == sig.Params().Len()-1) {
					a = c.nilTo(a, sig.Params().At(pi).Type()) // nil passed for a slice parameter is the empty sequence
				}
			}
			// pointer to an abstract container: the contract talks about the container value
			if a.S == SInt && a.Typ != nil {
				if pt, ok := a.Typ.Underlying().(*types.Pointer); ok {
					if nt, ok := types.Unalias(pt.Elem()).(*types.Named); ok {
						if as, isAbs := c.V.specs.Abstract[typeShortName(nt)]; isAbs && i == 0 && sig.Recv() != nil && con.Flags["recv-value"] {
							hk := c.ptrKey(pt.Elem())
							h := c.heapGet(st, hk, as)
							absPtr[n] = a.T
							absKey[n] = hk
							a = &Val{T: tApp("select", h, a.T), S: as, Typ: pt.Elem()}
						}
					}
				}
			}
			bind[n] = a
			bind[n+"0"] = a
		}
	}
	pre := st.clone()
	lookup := func(name string) *Val { return bind[name] }
	envPre := &SpecEnv{c: c, st: st, lookup: lookup, calleeKey: key}
	envPre.old = envPre
	c.atCallHooks(st, call, key, args)
	// requires
	for i, r := range con.Requires {
		t := c.specBool(envPre, r.Expr)
		c.nObl["call"]++
		nm := fmt.Sprintf("%s/call.%s/requires#%s@%d", c.key, shortKey(key), clauseID(r, i), c.callOrd(call))
		c.addObl(&Obligation{Name: nm, Kind: "call-requires", Descr: "precondition of " + key, Pos: c.pos(call), Hyps: append([]string(nil), st.pc...), Goal: t, Clause: r.Src})
		st.assume(t)
	}
	// shared state that other threads may have changed before the lock was obtained
	if len(con.HavocRegions) > 0 {
		c.interfere(st, call, con.HavocRegions, true)
	}
	// modifies
	if con.ModAll {
		ms := newModSet()
		ms.all = true
		c.havoc(st, ms, "call")
	} else {
		for _, m := range con.Modifies {
			c.applyModifies(st, envPre, m)
		}
	}
	var iterCount, iterLast *Val
	if con.Iter != nil {
		c.iterCount, c.iterLast = nil, nil
		defer func() {}()
	}
	if con.Iter != nil {
		if done := c.iterateCallback(st, call, con, bind, envPre, args, names, sig); !done {
			c.warn("iterator call at %s: callback is not a closure literal; treated as opaque", c.pos(call))
			ms := newModSet()
			ms.all = true
			c.havoc(st, ms, "iter")
		}
		iterCount, iterLast = c.iterCount, c.iterLast
	}
	c.closureArgsArbitrary(st, call, con, all, names)
	if ef := c.V.effects[key]; ef != nil {
		c.assertGates(st, call, fn, recv, key, ef)
		if con.Flags["frame-by-effects"] {
			c.frameByEffects(st, ef)
		}
	}
	c.bumpAlloc(st)
	// abstract values updated in place (receiver of container methods)
	postBind := map[string]*Val{}
	recvExpr := c.curRecvExpr
	c.curRecvExpr = nil
	for _, mn := range con.Mutates {
		v := bind[mn]
		if v == nil {
			c.warn("mutates %s: not a parameter of %s", mn, key)
			continue
		}
		if v.S == SInt && v.Typ != nil {
			// pointer to an abstract value
			if pt, ok := v.Typ.Underlying().(*types.Pointer); ok {
				es := c.sortOf(pt.Elem())
				hk := c.ptrKey(pt.Elem())
				h := c.heapGet(st, hk, es)
				nv := c.fresh("mut_"+mn, es)
				st.heap[hk] = tApp("store", h, v.T, nv)
				continue
			}
		}
		nv := &Val{T: c.fresh("mut_"+mn, v.S), S: v.S, Typ: v.Typ}
		postBind[mn] = nv
		if ref, ok := absPtr[mn]; ok {
			hk := absKey[mn]
			h := c.heapGet(st, hk, v.S)
			st.heap[hk] = tApp("store", h, ref, nv.T)
			continue
		}
		if recvExpr != nil && len(names) > 0 && names[0] == mn && sig.Recv() != nil {
			c.assignTo(st, recvExpr, nv)
		} else {
			// a slice parameter written by the callee (io.Reader.Read(p)): assign the new content to the argument
			assigned := false
			off := 0
			if sig.Recv() != nil {
				off = 1
			}
			for i, n := range names {
				if n != mn || i-off < 0 || i-off >= len(call.Args) {
					continue
				}
				ae := call.Args[i-off]
				if se, ok := ae.(*ast.SliceExpr); ok && se.Low == nil && se.High == nil {
					ae = se.X
				}
				switch ae.(type) {
				case *ast.Ident, *ast.SelectorExpr:
					c.assignTo(st, ae, nv)
					assigned = true
				}
			}
			if !assigned {
				c.warn("mutates %s at %s: no assignable location", mn, c.pos(call))
			}
		}
	}
	// results
	var results []*Val
	resNames := []string{}
	if sig.Results() != nil {
		for i := 0; i < sig.Results().Len(); i++ {
			r := sig.Results().At(i)
			v := c.havocVal(st, r.Type(), shortKey(key)+"_r")
			results = append(results, v)
			resNames = append(resNames, r.Name())
		}
	}
	oldEnv := &SpecEnv{c: c, st: pre, lookup: lookup, calleeKey: key}
	oldEnv.old = oldEnv
	postLookup := func(name string) *Val {
		if name == "result" && len(results) > 0 {
			return results[0]
		}
		for i, rn := range resNames {
			if rn != "" && rn == name {
				return results[i]
			}
			if name == fmt.Sprintf("result%d", i) {
				return results[i]
			}
		}
		if v, ok := postBind[name]; ok {
			return v
		}
		if con.Iter != nil && iterCount != nil {
			switch name {
			case "nvisited":
				return iterCount
			case "lastret":
				return iterLast
			}
		}
		return bind[name]
	}
	envPost := &SpecEnv{c: c, st: st, lookup: postLookup, old: oldEnv, calleeKey: key, calleePost: true}
	for _, e := range con.Ensures {
		t := c.specBool(envPost, e.Expr)
		if os.Getenv("VCGO_DEBUG") != "" && shortKey(key) == "Message.Command" {
			fmt.Fprintf(os.Stderr, "   Command ensures at %s: %.300s\n", c.pos(call), t)
		}
		st.assume(t)
	}
	if c.splitAtCall != "" && st.splitIdx < len(c.splitConds) && (key == c.splitConds[st.splitIdx].Label || shortKey(key) == c.splitConds[st.splitIdx].Label) &&
		(len(results) == 0 || results[0].S != SStr || st.litOf(results[0].T) == "") {
		// case split on the result of the next call of this callee whose result is not yet known (per path)
		sc := c.splitConds[st.splitIdx]
		if os.Getenv("VCGO_DEBUG") != "" {
			fmt.Fprintf(os.Stderr, "split[%d] at %s: %s\n", st.splitIdx, c.pos(call), sc.Src)
		}
		st.splitIdx++
		t := c.specBool(envPost, sc.Expr)
		if os.Getenv("VCGO_DEBUG") != "" {
			fmt.Fprintf(os.Stderr, "   assume %.300s\n", t)
		}
		st.assume(t)
	}
	if ef := c.V.effects[key]; ef != nil && !con.Flags["inline"] && !con.Flags["locks-internally"] {
		// (a handler that takes the lock itself also does its own logging; its contract says what it leaves pending)
		c.markPending(st, fn, ef, sig, results)
	}
	if c.con != nil {
		for _, ac := range c.con.AtCall {
			if ac.After && ac.SetVar != "" && (ac.Callee == shortKey(key) || ac.Callee == key) {
				// set-after-call: snapshot of an expression over the caller's scope and the call's results
				if ord := c.siteOrd(call, key); ord != 0 && (ac.Ord == 0 || ac.Ord == ord) {
					gv := c.V.specs.GhostVars[ac.SetVar]
					if gv == nil {
						c.specErr("set-after-call: no ghost variable " + ac.SetVar)
						continue
					}
					base := c.specEnvAt(st, call.Pos())
					inner := base.lookup
					env := *base
					env.lookup = func(n string) *Val {
						if n == "result" && len(results) > 0 {
							return results[0]
						}
						if strings.HasPrefix(n, "result") {
							if k, err := strconv.Atoi(n[6:]); err == nil && k < len(results) {
								return results[k]
							}
						}
						return inner(n)
					}
					if base.old == base {
						env.old = &env
					}
					if v := c.specEval(&env, ac.Cl.Expr); v != nil {
						st.ghost[ac.SetVar] = c.coerce(v, gv.Sort).T
					}
				}
				continue
			}
			if ac.Interfere == "after" && (ac.Callee == shortKey(key) || ac.Callee == key) {
				if ord := c.siteOrd(call, key); ord != 0 && (ac.Ord == 0 || ac.Ord == ord) {
					c.interfere(st, call, c.lockRegions(), false)
				}
			}
		}
	}
	return results
}

func (c *FnCtx) callOrd(call *ast.CallExpr) int {
	if n, ok := c.callOrds[call]; ok {
		return n
	}
	c.callOrds[call] = len(c.callOrds) + 1
	return c.callOrds[call]
}

// atCallHooks processes the call-site clauses (at-call, env-at-call, set-at-call, interfere-at-call) of the function under
// verification for one call; key is the callee's function key, or "local.<name>" for a call of a local closure variable.
func (c *FnCtx) atCallHooks(st *State, call *ast.CallExpr, key string, args []*Val) {
	if c.con != nil && len(c.con.AtCall) > 0 {
		ord := c.siteOrd(call, key)
		for i, ac := range c.con.AtCall {
			if (ac.Callee != shortKey(key) && ac.Callee != key) || ord == 0 || (ac.Ord != 0 && ac.Ord != ord) || ac.After {
				continue
			}
			evalPos := call.Pos()
			if p, ok := c.deferEnd[call]; ok {
				evalPos = p
			}
			base := c.specEnvAt(st, evalPos)
			inner := base.lookup
			env := *base
			env.lookup = func(n string) *Val {
				if strings.HasPrefix(n, "arg") {
					if k, err := strconv.Atoi(n[3:]); err == nil && k < len(args) {
						return args[k]
					}
				}
				if v := inner(n); v != nil {
					return v
				}
				// a deferred call can run before a local of its function was declared (early return): the
				// variable has no value on that path, so any value will do
				if _, isDeferred := c.deferEnd[call]; isDeferred {
					if sc := c.pkg.Types.Scope().Innermost(evalPos); sc != nil {
						if _, o := sc.LookupParent(n, evalPos); o != nil {
							if vr, ok := o.(*types.Var); ok {
								if _, have := st.vars[vr]; !have {
									return c.havocVal(st, vr.Type(), "undeclared")
								}
							}
						}
					}
				}
				return nil
			}
			if base.old == base {
				env.old = &env
			}
			if ac.Interfere != "" {
				if ac.Interfere == "before" {
					c.siteOrd(call, key)
					c.interfere(st, call, c.lockRegions(), false)
				}
				continue
			}
			if ac.SetVar != "" {
				gv := c.V.specs.GhostVars[ac.SetVar]
				if gv == nil {
					c.specErr("set-at-call: no ghost variable " + ac.SetVar)
					continue
				}
				v := c.specEval(&env, ac.Cl.Expr)
				if v != nil {
					st.ghost[ac.SetVar] = c.coerce(v, gv.Sort).T
				}
				continue
			}
			t := c.specBool(&env, ac.Cl.Expr)
			if ac.Assume {
				c.assumeNote("environment assumption in " + c.key + " before the call of " + shortKey(key) + ": " + ac.Cl.Src)
				st.assume(t)
				continue
			}
			c.nObl["call"]++
			nm := fmt.Sprintf("%s/at-call.%s#%d/%s", c.key, shortKey(key), ord, clauseID(ac.Cl, i))
			c.addObl(&Obligation{Name: nm, Kind: "at-call", Descr: "call-site assertion before " + key, Pos: c.pos(call), Hyps: append([]string(nil), st.pc...), Goal: t, Clause: ac.Cl.Src})
			st.assume(t)
		}
	}
}

// interfere: other threads run. The named regions of lock-protected state and the ghosts listed by the function under
// verification (`interference-ghosts`) take arbitrary values that satisfy its `rely` clauses (old() = the values before)
// and, when the lock has just been obtained, its `after-lock` monitor invariants.
func (c *FnCtx) interfere(st *State, call *ast.CallExpr, regions []string, locked bool) {
	pre := st.clone()
	ms := newModSet()
	for hk := range st.heap {
		for _, rn := range regions {
			for _, r := range c.V.specs.Regions {
				if r.Name != rn {
					continue
				}
				base := hk
				for {
					if r.has(base) {
						ms.heap[hk] = true
						break
					}
					i := strings.LastIndex(base, ".")
					if i < 0 {
						break
					}
					base = base[:i]
				}
			}
		}
	}
	if c.con != nil {
		for _, g := range c.con.InterfGhosts {
			ms.ghost[g] = true
		}
	}
	c.havoc(st, ms, "interf")
	if c.con == nil {
		return
	}
	evalPos := call.Pos()
	if p, ok := c.deferEnd[call]; ok {
		evalPos = p
	}
	for _, r := range c.con.Rely {
		env := c.specEnvAt(st, evalPos)
		oe := c.specEnvAt(pre, evalPos)
		oe.old = oe
		env.old = oe
		st.assume(c.specBool(env, r.Expr))
	}
	if locked {
		for _, a := range c.con.AfterLock {
			env := c.specEnvAt(st, evalPos)
			st.assume(c.specBool(env, a.Expr))
		}
	}
}

// lockRegions: the regions a lock acquisition exposes to interference (from the contract of rwlocker.Lock)
func (c *FnCtx) lockRegions() []string {
	for k, con := range c.V.specs.Contracts {
		if strings.HasSuffix(k, "rwlocker.Lock") && len(con.HavocRegions) > 0 {
			return con.HavocRegions
		}
	}
	return nil
}

// siteOrd is the 1-based source-order ordinal of a call among the calls of the same callee in the declaration under
// verification (0 when the call is not part of that declaration, e.g. inside an inlined callee).
func (c *FnCtx) siteOrd(call *ast.CallExpr, key string) int {
	if c.siteOrds == nil {
		c.siteOrds = map[*ast.CallExpr]int{}
		cnt := map[string]int{}
		c.deferEnd = map[*ast.CallExpr]token.Pos{}
		var bodies []*ast.BlockStmt
		var stack []ast.Node
		ast.Inspect(c.fd, func(n ast.Node) bool {
			if n == nil {
				top := stack[len(stack)-1]
				stack = stack[:len(stack)-1]
				switch top.(type) {
				case *ast.FuncDecl, *ast.FuncLit:
					bodies = bodies[:len(bodies)-1]
				}
				return true
			}
			stack = append(stack, n)
			switch x := n.(type) {
			case *ast.FuncDecl:
				bodies = append(bodies, x.Body)
			case *ast.FuncLit:
				bodies = append(bodies, x.Body)
			case *ast.DeferStmt:
				// a deferred call runs when the enclosing function ends: its call-site assertions see that scope
				if len(bodies) > 0 && bodies[len(bodies)-1] != nil {
					c.deferEnd[x.Call] = bodies[len(bodies)-1].Rbrace
				}
			}
			if ce, ok := n.(*ast.CallExpr); ok {
				if ci := c.calleeOf(ce); ci.fn != nil {
					k := typesFuncKey(ci.fn)
					cnt[k]++
					c.siteOrds[ce] = cnt[k]
				} else if ci.local != nil {
					k := "local." + ci.local.Name()
					cnt[k]++
					c.siteOrds[ce] = cnt[k]
				}
			}
			return true
		})
	}
	return c.siteOrds[call]
}

func shortKey(k string) string {
	if i := strings.Index(k, "."); i >= 0 {
		return k[i+1:]
	}
	return k
}

// applyModifies havocs what a modifies clause names, evaluated in the callee's pre environment.
func (c *FnCtx) applyModifies(st *State, env *SpecEnv, m Clause) {
	switch x := m.Expr.(type) {
	case *ast.Ident:
		if _, ok := c.V.specs.GhostVars[x.Name]; ok {
			c.havocGhost(st, x.Name)
			return
		}
		// a pointer parameter: all fields of the pointee
		v := env.lookup(x.Name)
		if v != nil && v.S == SInt && v.Typ != nil {
			if stt, _ := structOf(v.Typ); stt != nil {
				ms := newModSet()
				c.addHeapKeys(typeShortName(v.Typ), "", elemOfPtr(v.Typ), ms)
				for k := range ms.heap {
					c.havocHeapAt(st, k, v.T)
				}
				return
			}
		}
		if v != nil && v.S == SNone && v.Box != "" {
			ms := newModSet()
			c.addHeapKeys(typeShortName(v.Typ), "", v.Typ, ms)
			for k := range ms.heap {
				c.havocHeapAt(st, k, v.Box)
			}
			return
		}
		c.warn("modifies %s: cannot resolve; havoc all", m.Src)
		ms := newModSet()
		ms.all = true
		c.havoc(st, ms, "mod")
	case *ast.StarExpr:
		p := c.specEval(env, x.X)
		if p.Typ != nil {
			if pt, ok := p.Typ.Underlying().(*types.Pointer); ok {
				if es := c.sortOf(pt.Elem()); es != SNone {
					k := c.ptrKey(pt.Elem())
					c.heapGet(st, k, es)
					c.havocHeapAt(st, k, p.T)
					return
				}
				ms := newModSet()
				c.addHeapKeys(typeShortName(pt.Elem()), "", pt.Elem(), ms)
				for k := range ms.heap {
					c.havocHeapAt(st, k, p.T)
				}
				return
			}
		}
		c.warn("modifies %s: cannot resolve; havoc all", m.Src)
		ms := newModSet()
		ms.all = true
		c.havoc(st, ms, "mod")
	case *ast.SelectorExpr:
		base := c.specEval(env, x.X)
		if base.S == SInt && base.Typ != nil {
			if stt, _ := structOf(base.Typ); stt != nil {
				for i := 0; i < stt.NumFields(); i++ {
					f := stt.Field(i)
					if f.Name() == x.Sel.Name {
						ms := newModSet()
						c.addHeapKeys(typeShortName(base.Typ), f.Name(), f.Type(), ms)
						for k := range ms.heap {
							c.havocHeapAt(st, k, base.T)
						}
						return
					}
				}
			}
		}
		c.warn("modifies %s: cannot resolve; havoc all", m.Src)
		ms := newModSet()
		ms.all = true
		c.havoc(st, ms, "mod")
	default:
		ms := newModSet()
		ms.all = true
		c.havoc(st, ms, "mod")
	}
}

func elemOfPtr(t types.Type) types.Type {
	if p, ok := t.Underlying().(*types.Pointer); ok {
		return p.Elem()
	}
	return t
}

func (c *FnCtx) havocHeapAt(st *State, key, ref string) {
	var srt Sort
	if _, ok := st.heap[key]; ok {
		srt = c.heapSort(key)
	} else {
		return // never read or written so far: lazily created later as a fresh pre-state array — but pre-state must differ
	}
	_, vs := arrParts(srt)
	f := c.fresh("hv_"+sanitizeSym(key), vs)
	st.heap[key] = tApp("store", st.heap[key], ref, f)
}

// callNoContract: extern or repo function without a contract.
func (c *FnCtx) callNoContract(st *State, call *ast.CallExpr, fn *types.Func, recv *Val, args []*Val, key string) []*Val {
	sig, _ := fn.Type().(*types.Signature)
	c.bumpAlloc(st)
	if c.isRepoFunc(fn) {
		if ef := c.V.effects[key]; ef != nil && c.V.funcs[key] != nil {
			return c.callByEffects(st, call, fn, recv, args, key, ef)
		}
		c.nocontract[key] = true
		ms := newModSet()
		ms.all = true
		c.havoc(st, ms, "nocon")
	} else {
		c.externNoCon[key] = true
		// pointer arguments to structs/scalars may be written by the callee
		for _, a := range call.Args {
			if u, ok := a.(*ast.UnaryExpr); ok && u.Op == token.AND {
				ms := newModSet()
				c.modTarget(u.X, ms)
				c.havoc(st, ms, "outarg")
			}
		}
	}
	c.closureArgsArbitrary(st, call, nil, append([]*Val{recv}, args...), nil)
	if sig == nil {
		return nil
	}
	rs := c.havocResults(st, sig.Results())
	if !c.isRepoFunc(fn) {
		for _, r := range rs {
			if r.Typ != nil {
				if _, isFn := r.Typ.Underlying().(*types.Signature); isFn {
					r.Ext = true
				}
			}
		}
	}
	return rs
}

// closureArgsArbitrary: a closure literal handed to a callee that gives no iteration contract for it may be called
// by that callee any number of times with arbitrary arguments (its body is executed under that assumption, so that
// obligations inside it are still generated).
func (c *FnCtx) closureArgsArbitrary(st *State, call *ast.CallExpr, con *Contract, all []*Val, names []string) {
	for i, a := range all {
		if a == nil || a.Fn == nil {
			continue
		}
		if con != nil && con.Iter != nil && i < len(names) && names[i] == con.Iter.Param {
			continue
		}
		if c.arbDepth > 2 {
			continue
		}
		c.arbDepth++
		fake := &Contract{Iter: &IterSpec{Param: "cb"}}
		c.loopOrdSynthetic(a.Fn)
		c.invokeArbitrarilyAt(st, a.Fn, call, fake, map[string]*Val{"cb": a}, &SpecEnv{c: c, st: st, lookup: func(string) *Val { return nil }})
		c.arbDepth--
	}
}

func (c *FnCtx) loopOrdSynthetic(n ast.Node) {
	if _, ok := c.loopOrd[n]; !ok {
		c.loopOrd[n] = 1000 + len(c.loopOrd)
	}
}

// traceCallback: a call through a function-typed parameter. The argument values are appended to ghost sequences
// calls.<param> (first argument), calls2.<param> (second); the result is arbitrary and remembered in lastret.<param>.
// Assumption (listed): the callback does not modify the data structures of the function under verification.
func (c *FnCtx) traceCallback(st *State, call *ast.CallExpr, pv *types.Var, args []*Val) []*Val {
	c.assumeNote("callbacks received as parameters are recorded in a ghost call trace and assumed not to modify the container being iterated")
	for i, a := range args {
		if i > 1 || a.S == SNone {
			break
		}
		gn := "calls." + pv.Name()
		if i == 1 {
			gn = "calls2." + pv.Name()
		}
		gs := seqSort(a.S)
		c.declSeq(gs)
		gv := c.traceGhost(gn, gs)
		cur := c.ghostGet(st, gv)
		st.ghost[gn] = tApp("app1_"+sortName(gs), cur, a.T)
	}
	sig, _ := pv.Type().Underlying().(*types.Signature)
	var rs []*Val
	if sig != nil {
		rs = c.havocResults(st, sig.Results())
	}
	isIter := c.con != nil && c.con.Iter != nil && c.con.Iter.Param == pv.Name()
	if isIter {
		c.iterProtocol(st, call, pv, args)
	}
	if len(rs) > 0 && rs[0].S == SBool {
		gv := c.traceGhost("lastret."+pv.Name(), SBool)
		c.ghostGet(st, gv)
		st.ghost[gv.Name] = rs[0].T
	}
	return rs
}

func (c *FnCtx) traceGhost(name string, s Sort) *GhostVar {
	if gv, ok := c.V.specs.GhostVars[name]; ok {
		return gv
	}
	gv := &GhostVar{Name: name, Sort: s}
	c.V.specs.GhostVars[name] = gv
	found := false
	for _, g := range c.V.specs.GVOrder {
		if g == name {
			found = true
		}
	}
	if !found {
		c.V.specs.GVOrder = append(c.V.specs.GVOrder, name)
	}
	return gv
}

// iterateCallback turns `container.Iter(..., func(...) bool {...})` into a loop over the ghost sequence of the
// callee's `iterates` clause, with the closure body executed in place (DESIGN §3.4).
func (c *FnCtx) iterateCallback(st *State, call *ast.CallExpr, con *Contract, bind map[string]*Val, envPre *SpecEnv, args []*Val, names []string, sig *types.Signature) bool {
	cb := bind[con.Iter.Param]
	if cb == nil {
		return false
	}
	if con.Iter.Guard != nil || con.Iter.Seq.Expr == nil {
		// guarded contract: under the guard the precise loop, otherwise an arbitrary number of invocations on
		// arbitrary elements satisfying the `only` condition
		g := "false"
		if con.Iter.Guard != nil && con.Iter.Seq.Expr != nil {
			g = c.specBool(envPre, con.Iter.Guard.Expr)
		}
		var ends []*State
		var cnts, lasts []*Val
		if g != "false" {
			s1 := st.clone()
			s1.assume(g)
			plain := *con
			pit := *con.Iter
			pit.Guard = nil
			plain.Iter = &pit
			e1 := *envPre
			e1.st = s1
			e1.old = &e1
			if c.iterateCallback(s1, call, &plain, bind, &e1, args, names, sig) && !c.diverged(s1) {
				ends = append(ends, s1)
				cnts = append(cnts, c.iterCount)
				lasts = append(lasts, c.iterLast)
			}
		}
		if m := reTrivEq.FindStringSubmatch(g); m != nil && m[1] == m[2] {
			g = "true" // the guard compares a literal argument with itself: only the precise mode applies
		}
		s2 := st.clone()
		s2.assume(tNot(g))
		if g != "true" && c.invokeArbitrarily(s2, call, con, bind, envPre) && !c.diverged(s2) {
			ends = append(ends, s2)
			cnts = append(cnts, c.iterCount)
			lasts = append(lasts, c.iterLast)
		}
		if len(ends) == 0 {
			st.assume("false")
			return true
		}
		conds := make([]string, len(ends))
		for i := range ends {
			conds[i] = ends[i].pcTerm()
		}
		m := c.merge(ends)
		*st = *m
		c.iterCount = c.mergeVals(cnts, conds, "nvisited")
		c.iterLast = c.mergeVals(lasts, conds, "lastret")
		return true
	}
	var lit *ast.FuncLit
	if cb.Fn != nil {
		lit = cb.Fn
	}
	var paramCB *types.Var
	if lit == nil {
		// a function-typed parameter passed through: each invocation is a traced callback call
		off := 0
		if sig.Recv() != nil {
			off = 1
		}
		for i, n := range names {
			if n == con.Iter.Param && i-off >= 0 && i-off < len(call.Args) {
				if id, ok := call.Args[i-off].(*ast.Ident); ok {
					if pv, ok := c.info.ObjectOf(id).(*types.Var); ok && c.isParam(pv) {
						paramCB = pv
					}
				}
			}
		}
		if paramCB == nil {
			return false
		}
	}
	S := c.specEval(envPre, con.Iter.Seq.Expr)
	if !isSeq(S.S) && S.S != SStr {
		c.specErr("iterates: %s is not a sequence", con.Iter.Seq.Src)
		return false
	}
	n := c.seqLen(S)
	idxObj := types.NewVar(call.Pos(), c.pkg.Types, fmt.Sprintf("iter_k_%d", c.loopOrd[call]), types.Typ[types.Int])
	st.vars[idxObj] = &Val{T: "0", S: SInt, Typ: types.Typ[types.Int]}
	c.rangeIdx[call] = idxObj
	c.rangeLen[call] = n
	c.mapSeqOf[call] = S // the sequence this iterator loop runs over (seq<N> in contracts)
	cntObj := types.NewVar(call.Pos(), c.pkg.Types, fmt.Sprintf("iter_ncalls_%d", c.loopOrd[call]), types.Typ[types.Int])
	lastObj := types.NewVar(call.Pos(), c.pkg.Types, fmt.Sprintf("iter_last_%d", c.loopOrd[call]), types.Typ[types.Bool])
	st.vars[cntObj] = &Val{T: "0", S: SInt, Typ: types.Typ[types.Int]}
	st.vars[lastObj] = &Val{T: "true", S: SBool, Typ: types.Typ[types.Bool]}
	c.iterExtra[call] = []types.Object{cntObj, lastObj}
	var bodyNode ast.Node = call
	if lit != nil {
		bodyNode = lit.Body
	}
	cond := func(s *State) string { return tApp("<", s.vars[idxObj].T, n) }
	body := func(s *State) []Exit {
		k := s.vars[idxObj]
		it := &Val{T: c.seqAt(S, k.T), S: elemSort(S.S)}
		env := envPre.withBound("it", it).withBound("k", k)
		env.st = s
		var cargs []*Val
		var ptypes []types.Type
		if lit != nil {
			lsig, _ := c.typeOf(lit).(*types.Signature)
			for i := 0; lsig != nil && i < lsig.Params().Len(); i++ {
				ptypes = append(ptypes, lsig.Params().At(i).Type())
			}
		} else if ps, ok := paramCB.Type().Underlying().(*types.Signature); ok {
			for i := 0; i < ps.Params().Len(); i++ {
				ptypes = append(ptypes, ps.Params().At(i).Type())
			}
		}
		for i, a := range con.Iter.Args {
			v := c.specEval(env, a.Expr)
			if i < len(ptypes) {
				v = &Val{T: v.T, S: v.S, Typ: ptypes[i]}
				if c.sortOf(ptypes[i]) == SNone {
					v = c.havocVal(s, ptypes[i], "cbarg")
				}
			}
			cargs = append(cargs, v)
		}
		for i := len(cargs); i < len(ptypes); i++ {
			cargs = append(cargs, c.havocVal(s, ptypes[i], "cbarg"))
		}
		var skip *State
		if con.Iter.When != nil {
			cw := c.specBool(env, con.Iter.When.Expr)
			skip = s.clone()
			skip.assume(tNot(cw))
			s.assume(cw)
		}
		var rs []*Val
		if lit != nil {
			rs = c.inlineLit(s, lit, cargs, call)
		} else {
			rs = c.traceCallback(s, call, paramCB, cargs)
		}
		if c.diverged(s) {
			if skip != nil {
				return normal(skip)
			}
			return nil
		}
		// elements consumed so far: the index at the time of the call (k) plus one
		s.vars[cntObj] = &Val{T: tApp("+", k.T, "1"), S: SInt, Typ: types.Typ[types.Int]}
		if skip != nil {
			defer func() {}()
		}
		if skip != nil && (len(rs) == 0 || rs[0].S != SBool) {
			return []Exit{{kind: exNormal, st: s}, {kind: exNormal, st: skip}}
		}
		if skip != nil {
			s.vars[lastObj] = &Val{T: rs[0].T, S: SBool, Typ: types.Typ[types.Bool]}
			sT := s.clone()
			sT.assume(rs[0].T)
			sF := s.clone()
			sF.assume(tNot(rs[0].T))
			return []Exit{{kind: exNormal, st: sT}, {kind: exBreak, st: sF}, {kind: exNormal, st: skip}}
		}
		if len(rs) == 0 || rs[0].S != SBool {
			return normal(s)
		}
		s.vars[lastObj] = &Val{T: rs[0].T, S: SBool, Typ: types.Typ[types.Bool]}
		sT := s.clone()
		sT.assume(rs[0].T)
		sF := s.clone()
		sF.assume(tNot(rs[0].T))
		if lit != nil {
			if ls, ord := c.loopSpec(call); ls != nil {
				for i, oc := range ls.OnStop {
					env := c.specEnvAt(sF, lit.Body.Pos()+1)
					t := c.specBool(env, oc.Expr)
					c.addObl(&Obligation{Name: fmt.Sprintf("%s/loop%d/on-stop#%s", c.key, ord, clauseID(oc, i)), Kind: "loop-on-stop",
						Descr: "holds whenever the callback stops the iteration", Pos: c.pos(call), Hyps: append([]string(nil), sF.pc...), Goal: t, Clause: oc.Src})
				}
			}
		}
		return []Exit{{kind: exNormal, st: sT}, {kind: exBreak, st: sF}}
	}
	post := func(s *State) []Exit {
		i := s.vars[idxObj]
		s.vars[idxObj] = &Val{T: tApp("+", i.T, "1"), S: SInt, Typ: i.Typ}
		return normal(s)
	}
	exits := c.execLoop(st, call, "", bodyNode, cond, body, post)
	var ends []*State
	for _, ex := range exits {
		if ex.kind == exNormal {
			ends = append(ends, ex.st)
		} else if ex.kind != exPanic {
			c.warn("non-local exit from an iterator callback at %s", c.pos(call))
		}
	}
	if len(ends) == 0 {
		st.assume("false")
		return true
	}
	m := c.merge(ends)
	*st = *m
	c.iterCount = st.vars[cntObj]
	c.iterLast = st.vars[lastObj]
	return true
}

var reTrivEq = regexp.MustCompile(`^\(= (-?[0-9]+) (-?[0-9]+)\)$`)

// iterProtocol: the function under verification promises (`iterates p seq S args A when C position E`) to behave like
//
//	for k := range S { if C(S[k]) { if !p(A(S[k])) { break } } }
//
// At each invocation of p the obligations are: p has not yet said stop; the claimed position E is the next
// C-element of S at or after the previous one; the arguments are A(S[E]). The ghost nextpos.<p> is then E+1.
func (c *FnCtx) iterProtocol(st *State, call *ast.CallExpr, pv *types.Var, args []*Val) {
	it := c.con.Iter
	name := pv.Name()
	guard := "true"
	envHere0 := c.specEnvAt(st, call.Pos())
	if it.Guard != nil {
		guard = c.specBool(envHere0.old, it.Guard.Expr)
	}
	mk := func(kind, descr, goal string) {
		c.nObl["iter."+kind]++
		c.addObl(&Obligation{Name: fmt.Sprintf("%s/iterates.%s/%s#%d", c.key, name, kind, c.nObl["iter."+kind]), Kind: "iterates",
			Descr: descr, Pos: c.pos(call), Hyps: append([]string(nil), st.pc...), Goal: tImp(guard, goal), Clause: "iterates " + name + " seq " + it.Seq.Src})
	}
	if it.Only != nil && len(args) > 0 && args[0].S != SNone {
		e := envHere0.withBound("it", args[0])
		c.nObl["iter.only"]++
		c.addObl(&Obligation{Name: fmt.Sprintf("%s/invokes.%s/only#%d", c.key, name, c.nObl["iter.only"]), Kind: "invokes",
			Descr: "every invocation of the callback satisfies the `only` condition", Pos: c.pos(call), Hyps: append([]string(nil), st.pc...),
			Goal: c.specBool(e, it.Only.Expr), Clause: "invokes " + name + " only " + it.Only.Src})
	}
	if it.Seq.Expr == nil {
		return
	}
	lastGV := c.traceGhost("lastret."+name, SBool)
	last := c.ghostGet(st, lastGV)
	mk("not-after-stop", "the callback is not invoked again after it returned false", last)
	npGV := c.traceGhost("nextpos."+name, SInt)
	np := c.ghostGet(st, npGV)
	envHere := c.specEnvAt(st, call.Pos())
	S := c.specEval(envHere.old, it.Seq.Expr)
	if !isSeq(S.S) && S.S != SStr {
		c.specErr("iterates: %s is not a sequence", it.Seq.Src)
		return
	}
	if it.Pos == nil {
		c.specErr("iterates %s: a `position` expression is needed to verify the body", name)
		return
	}
	pos := c.specEval(envHere, it.Pos.Expr).T
	mk("position", "the element passed is at or after the next expected position of S", tAnd(tApp("<=", np, pos), tApp("<", pos, c.seqLen(S))))
	itv := func(idx string) *SpecEnv {
		e := envHere.old.withBound("k", &Val{T: idx, S: SInt}).withBound("it", &Val{T: c.seqAt(S, idx), S: elemSort(S.S)})
		return e
	}
	if it.When != nil {
		c.nfresh++
		m := fmt.Sprintf("m!q%d", c.nfresh)
		cm := c.specBool(itv(m), it.When.Expr)
		mk("skipped", "every element skipped since the previous invocation fails the `when` condition",
			fmt.Sprintf("(forall ((%s Int)) (=> (and (<= %s %s) (< %s %s)) (not %s)))", m, np, m, m, pos, cm))
		mk("when", "the element passed satisfies the `when` condition", c.specBool(itv(pos), it.When.Expr))
	} else {
		mk("consecutive", "no element of S is skipped", tEq(pos, np))
	}
	for i, a := range it.Args {
		if i >= len(args) || args[i].S == SNone {
			continue
		}
		want := c.specEval(itv(pos), a.Expr)
		mk(fmt.Sprintf("arg%d", i+1), "the argument passed is the one the contract names", tEq(args[i].T, c.coerce(want, args[i].S).T))
	}
	st.ghost[npGV.Name] = tApp("+", pos, "1")
}

// invokeArbitrarily: the callee may call the closure any number of times on arbitrary elements that satisfy the
// `only` condition of its contract (used where the precise iteration contract is not available).
func (c *FnCtx) invokeArbitrarily(st *State, call *ast.CallExpr, con *Contract, bind map[string]*Val, envPre *SpecEnv) bool {
	return c.invokeArbitrarilyAt(st, call, call, con, bind, envPre)
}

func (c *FnCtx) invokeArbitrarilyAt(st *State, node ast.Node, call *ast.CallExpr, con *Contract, bind map[string]*Val, envPre *SpecEnv) bool {
	cb := bind[con.Iter.Param]
	if cb == nil || cb.Fn == nil {
		return false
	}
	lit := cb.Fn
	lsig, _ := c.typeOf(lit).(*types.Signature)
	cntObj := types.NewVar(call.Pos(), c.pkg.Types, fmt.Sprintf("arb_ncalls_%d", c.loopOrd[node]), types.Typ[types.Int])
	lastObj := types.NewVar(call.Pos(), c.pkg.Types, fmt.Sprintf("arb_last_%d", c.loopOrd[node]), types.Typ[types.Bool])
	st.vars[cntObj] = &Val{T: c.fresh("arb_n", SInt), S: SInt, Typ: types.Typ[types.Int]}
	st.assume(tApp(">=", st.vars[cntObj].T, "0"))
	st.vars[lastObj] = &Val{T: c.fresh("arb_last", SBool), S: SBool, Typ: types.Typ[types.Bool]}
	if node == ast.Node(call) {
		c.iterExtra[call] = nil
		delete(c.rangeIdx, call)
	}
	cond := func(s *State) string { return c.fresh("more", SBool) }
	body := func(s *State) []Exit {
		var cargs []*Val
		for i := 0; lsig != nil && i < lsig.Params().Len(); i++ {
			cargs = append(cargs, c.havocVal(s, lsig.Params().At(i).Type(), "arb"))
		}
		if con.Iter.Only != nil && len(cargs) > 0 {
			e := envPre.withBound("it", cargs[0])
			e.st = s
			s.assume(c.specBool(e, con.Iter.Only.Expr))
		}
		rs := c.inlineLit(s, lit, cargs, call)
		if c.diverged(s) {
			return nil
		}
		if len(rs) == 0 || rs[0].S != SBool {
			return normal(s)
		}
		sT := s.clone()
		sT.assume(rs[0].T)
		sF := s.clone()
		sF.assume(tNot(rs[0].T))
		return []Exit{{kind: exNormal, st: sT}, {kind: exBreak, st: sF}}
	}
	exits := c.execLoop(st, node, "", lit.Body, cond, body, nil)
	var ends []*State
	for _, ex := range exits {
		if ex.kind == exNormal {
			ends = append(ends, ex.st)
		}
	}
	if len(ends) == 0 {
		st.assume("false")
		return true
	}
	m := c.merge(ends)
	*st = *m
	c.iterCount = st.vars[cntObj]
	c.iterLast = st.vars[lastObj]
	return true
}

// callByEffects: a repo function without a contract is replaced by the frame the effect inference computed for it
// (fields it may write, ghosts its callees' contracts change, lock operations). In functions marked `lockcheck`
// the lock/gate requirements that follow from the callee's effect class are asserted at the call (A1, A2, A3).
func (c *FnCtx) callByEffects(st *State, call *ast.CallExpr, fn *types.Func, recv *Val, args []*Val, key string, ef *Effects) []*Val {
	sig, _ := fn.Type().(*types.Signature)
	c.autoFramed[key] = true
	wr := c.V.regionsOf(ef.allWrites())
	rd := c.V.regionsOf(ef.R)
	has := func(rs []string, names ...string) bool {
		for _, r := range rs {
			for _, n := range names {
				if r == n {
					return true
				}
			}
		}
		return false
	}
	handler := c.isHandler(fn)
	c.assertGates(st, call, fn, recv, key, ef)
	if false {
		lock := c.ghostTerm(st, "lock")
		mk := func(tag, descr, goal string) {
			c.nObl["auto."+tag]++
			c.addObl(&Obligation{Name: fmt.Sprintf("%s/call.%s/%s@%d", c.key, shortKey(key), tag, c.callOrd(call)), Kind: "gate",
				Descr: descr, Pos: c.pos(call), Hyps: append([]string(nil), st.pc...), Goal: goal,
				Clause: fmt.Sprintf("%s: writes%v reads%v", key, wr, rd)})
		}
		if lock != "" {
			if has(wr, "Keyspace", "Hooks", "Log", "Config") {
				mk("A1", "a callee that writes shared server state runs under the exclusive lock", tEq(lock, "2"))
			} else if has(rd, "Keyspace", "Hooks") {
				mk("A1r", "a callee that reads the keyspace runs under a lock", tApp(">=", lock, "1"))
			}
		}
		if handler && recv != nil {
			env := &SpecEnv{c: c, st: st, lookup: func(n string) *Val {
				if n == "s" {
					return recv
				}
				return nil
			}}
			env.old = env
			if has(wr, "Keyspace", "Hooks") {
				if g, ok := c.V.specs.Ghosts["gateLeaderWritable"]; ok && g.Macro {
					mk("A2", "a data-modifying command runs only on a writable leader", c.specBool(env, &ast.CallExpr{Fun: ast.NewIdent("gateLeaderWritable"), Args: []ast.Expr{ast.NewIdent("s")}}))
				}
			}
			if has(rd, "Keyspace") && !has(wr, "Keyspace", "Hooks") {
				if g, ok := c.V.specs.Ghosts["gateCaughtUp"]; ok && g.Macro {
					mk("A3", "object reads are served by a follower only after it caught up once", c.specBool(env, &ast.CallExpr{Fun: ast.NewIdent("gateCaughtUp"), Args: []ast.Expr{ast.NewIdent("s")}}))
				}
			}
		}
	}
	// frame
	c.frameByEffects(st, ef)
	ms := newModSet()
	for g := range ef.G {
		ms.ghost[g] = true
	}
	if len(ef.LockOps) > 0 {
		ms.ghost["lock"] = true
		c.warn("%s operates the server lock and has no contract: lock state havoced at %s", key, c.pos(call))
	}
	c.havoc(st, ms, "fx")
	var rs []*Val
	if sig != nil {
		rs = c.havocResults(st, sig.Results())
	}
	c.markPending(st, fn, ef, sig, rs)
	c.closureArgsArbitrary(st, call, nil, append([]*Val{recv}, args...), nil)
	return rs
}

// markPending: a data-modifying command handler leaves a mutation to be logged iff it reports success and `updated`
// (ghost `pending`, cleared by writeAOF). Applied to handlers called through their contract and to handlers framed by
// their inferred effects alike.
func (c *FnCtx) markPending(st *State, fn *types.Func, ef *Effects, sig *types.Signature, rs []*Val) {
	if os.Getenv("VCGO_DEBUG") != "" && fn != nil {
		fmt.Fprintf(os.Stderr, "markPending %s handler=%v writes=%v nres=%d\n", fn.Name(), c.isHandler(fn), c.V.regionsOf(ef.allWrites()), len(rs))
	}
	if fn == nil || ef == nil || !c.isHandler(fn) {
		return
	}
	wr := c.V.regionsOf(ef.allWrites())
	writes := false
	for _, r := range wr {
		if r == "Keyspace" || r == "Hooks" {
			writes = true
		}
	}
	if !writes {
		return
	}
	if _, ok := c.V.specs.GhostVars["pending"]; !ok {
		return
	}
	var errv, dv, resv *Val
	for i := 0; sig != nil && i < sig.Results().Len() && i < len(rs); i++ {
		rt := sig.Results().At(i).Type()
		if types.Identical(rt, types.Universe.Lookup("error").Type()) {
			errv = rs[i]
		}
		if typeShortName(rt) == "server.commandDetails" {
			dv = rs[i]
		}
		if typeShortName(rt) == "resp.Value" {
			resv = rs[i]
		}
	}
	p := "true"
	if errv != nil {
		p = tEq(errv.T, "0")
	}
	if resv != nil && resv.S == SInt {
		// assumption (listed): a handler that answers with an error-typed value has changed nothing
		c.decls.declFun("gf_respType", []Sort{SInt}, SInt)
		p = tAnd(p, tNot(tEq(tApp("gf_respType", resv.T), "45")))
		c.assumeNote("a command handler that replies with an error-typed value (resp.Error) is assumed to have changed nothing (part of C01's handler contracts)")
	}
	if dv != nil {
		p = tAnd(p, c.fieldOfVal(st, dv, "updated", types.Typ[types.Bool]).T)
	}
	if os.Getenv("VCGO_DEBUG") != "" {
		fmt.Fprintf(os.Stderr, "   pending |= %.300s\n", p)
	}
	st.ghost["pending"] = tOr(c.ghostTerm(st, "pending"), p)
}

func (c *FnCtx) ghostTerm(st *State, name string) string {
	gv := c.V.specs.GhostVars[name]
	if gv == nil {
		return ""
	}
	return c.ghostGet(st, gv)
}

// isHandler: command handlers are the server methods cmdXxx(msg *Message, ...) dispatched by Server.command.
func (c *FnCtx) isHandler(fn *types.Func) bool {
	if !strings.HasPrefix(fn.Name(), "cmd") {
		return false
	}
	sig, _ := fn.Type().(*types.Signature)
	if sig == nil || sig.Recv() == nil || typeShortName(sig.Recv().Type()) != "server.Server" {
		return false
	}
	for i := 0; i < sig.Params().Len(); i++ {
		if typeShortName(sig.Params().At(i).Type()) == "server.Message" {
			return true
		}
	}
	return false
}

// box: a non-reference value stored in an interface (uninterpreted injection)
func (c *FnCtx) box(v *Val) *Val {
	if v.S == SInt || v.S == SNone {
		return v
	}
	fn := "box_" + sortName(v.S)
	c.decls.declFun(fn, []Sort{v.S}, SInt)
	return &Val{T: tApp(fn, v.T), S: SInt, Typ: v.Typ}
}

func (c *FnCtx) inTrialAny() bool { return len(c.inTrial) > 0 }

// assertGates: in functions marked `lockcheck`, the lock/gate requirements that follow from the callee's inferred
// effect class are asserted at the call: A1 (exclusive lock for writers of Keyspace/Hooks/Log, a lock for readers),
// A2 (writable leader) and A3 (caught up once) for command handlers.
func (c *FnCtx) assertGates(st *State, call *ast.CallExpr, fn *types.Func, recv *Val, key string, ef *Effects) {
	if c.con == nil || !c.con.Flags["lockcheck"] || ef == nil {
		return
	}
	wr := c.V.regionsOf(ef.allWrites())
	rd := c.V.regionsOf(ef.R)
	has := func(rs []string, names ...string) bool {
		for _, r := range rs {
			for _, n := range names {
				if r == n {
					return true
				}
			}
		}
		return false
	}
	handler := c.isHandler(fn)
	lock := c.ghostTerm(st, "lock")
	mk := func(tag, descr, goal string) {
		c.nObl["auto."+tag]++
		c.addObl(&Obligation{Name: fmt.Sprintf("%s/call.%s/%s@%d", c.key, shortKey(key), tag, c.callOrd(call)), Kind: "gate",
			Descr: descr, Pos: c.pos(call), Hyps: append([]string(nil), st.pc...), Goal: goal,
			Clause: fmt.Sprintf("%s: writes%v reads%v", key, wr, rd)})
	}
	if cc := c.V.specs.Contracts[key]; cc != nil && cc.Flags["locks-internally"] {
		lock = "" // the callee takes the server lock itself
	}
	if lock != "" {
		if has(wr, "Keyspace", "Hooks", "Log") {
			mk("A1", "a callee that writes the keyspace, the hooks or the log runs under the exclusive lock", tEq(lock, "2"))
		} else if has(rd, "Keyspace", "Hooks") {
			mk("A1r", "a callee that reads the keyspace runs under a lock", tApp(">=", lock, "1"))
		}
	}
	if c.con.Flags["internal-caller"] {
		handler = false // background tasks are not client commands: only the lock discipline (A1) applies
	}
	if handler && recv != nil {
		for _, g := range c.con.Gates {
			if g.Except[fn.Name()] {
				continue
			}
			ge := c.specEnvAt(st, c.fd.Body.Rbrace)
			mk(g.Name, "gate "+g.Name+" holds at every handler call: "+g.Cond.Src, c.specBool(ge, g.Cond.Expr))
		}
		env := &SpecEnv{c: c, st: st, lookup: func(n string) *Val {
			if n == "s" {
				return recv
			}
			return nil
		}}
		env.old = env
		if has(wr, "Keyspace", "Hooks") {
			if g, ok := c.V.specs.Ghosts["gateLeaderWritable"]; ok && g.Macro {
				mk("A2", "a data-modifying command runs only on a writable leader", c.specBool(env, &ast.CallExpr{Fun: ast.NewIdent("gateLeaderWritable"), Args: []ast.Expr{ast.NewIdent("s")}}))
			}
		}
		if has(rd, "Keyspace") && !has(wr, "Keyspace", "Hooks") {
			if g, ok := c.V.specs.Ghosts["gateCaughtUp"]; ok && g.Macro {
				mk("A3", "object reads are served by a follower only after it caught up once", c.specBool(env, &ast.CallExpr{Fun: ast.NewIdent("gateCaughtUp"), Args: []ast.Expr{ast.NewIdent("s")}}))
			}
		}
	}
}

// frameByEffects havocs the heap locations the effect inference says the callee may write.
func (c *FnCtx) frameByEffects(st *State, ef *Effects) {
	ms := newModSet()
	for k := range ef.W {
		ms.heap[k] = true
	}
	c.contentTouched(ef, "")
	for k := range ef.C {
		if ck, known := c.V.fieldContent[k]; known && ck == "" {
			ms.heap[k] = true // by-value abstract container: its content is the field's value
		}
	}
	for hk := range st.heap {
		for k := range ef.W {
			if strings.HasPrefix(hk, k+".") {
				ms.heap[hk] = true
			}
		}
		if (strings.HasPrefix(hk, "ptr.") || strings.HasPrefix(hk, "map.")) && c.contentTouched(ef, hk) {
			ms.heap[hk] = true
		}
	}
	c.havoc(st, ms, "fx")
}

// contentTouched: may a callee with these effects change the content heap hk (pointees of abstract containers, maps)?
// Yes when one of the fields it writes has a type whose pointee / map content lives in hk.
func (c *FnCtx) contentTouched(ef *Effects, hk string) bool {
	if len(ef.W) == 0 && len(ef.C) == 0 {
		return false
	}
	if c.V.fieldContent == nil {
		c.V.fieldContent = map[string]string{}
		for _, p := range c.V.pkgs {
			sc := p.Types.Scope()
			for _, n := range sc.Names() {
				tn, ok := sc.Lookup(n).(*types.TypeName)
				if !ok {
					continue
				}
				stt, ok := tn.Type().Underlying().(*types.Struct)
				if !ok {
					continue
				}
				for i := 0; i < stt.NumFields(); i++ {
					f := stt.Field(i)
					key := p.Name + "." + n + "." + f.Name()
					ft := f.Type()
					if pt, ok := ft.Underlying().(*types.Pointer); ok {
						c.V.fieldContent[key] = c.ptrKey(pt.Elem())
					} else if mt, ok := ft.Underlying().(*types.Map); ok {
						_, _, mk := c.mapKeys(mt)
						c.V.fieldContent[key] = mk
					} else if nt, ok := types.Unalias(ft).(*types.Named); ok {
						if _, isAbs := c.V.specs.Abstract[typeShortName(nt)]; isAbs {
							c.V.fieldContent[key] = "" // by-value abstract field: content is in the field heap itself
						}
					}
				}
			}
		}
	}
	for w := range ef.allWrites() {
		ck, known := c.V.fieldContent[w]
		if !known {
			// a field we know nothing about (not a pointer/map): cannot reach a content heap
			continue
		}
		if ck != "" && (hk == ck || strings.HasPrefix(hk, ck+".")) {
			return true
		}
	}
	return false
}

// contentKeys: content heaps a callee with these effects may change
func (c *FnCtx) contentKeys(ef *Effects) []string {
	c.contentTouched(ef, "") // make sure the table exists
	seen := map[string]bool{}
	var out []string
	for w := range ef.allWrites() {
		if ck := c.V.fieldContent[w]; ck != "" && !seen[ck] {
			seen[ck] = true
			out = append(out, ck)
		}
	}
	return out
}

// effectFieldKeys: field heaps a callee with these effects may change (assigned fields, and by-value abstract
// containers whose content it changes)
func (c *FnCtx) effectFieldKeys(ef *Effects) []string {
	c.contentTouched(ef, "")
	var out []string
	for k := range ef.W {
		out = append(out, k)
	}
	for k := range ef.C {
		if ck, known := c.V.fieldContent[k]; known && ck == "" {
			out = append(out, k)
		}
	}
	return out
}
