package main

// Worker processes and result records: heavy functions (many split cases) are verified by several worker
// processes in parallel; results are plain records so that they can be cached and shared between the checks of
// properties that rest on the same function (C03, C07, C15, C18 all rest on the dispatcher).

import (
	"crypto/sha256"
	"encoding/hex"
	"encoding/json"
	"flag"
	"fmt"
	"io/fs"
	"os"
	"os/exec"
	"path/filepath"
	"sort"
	"strings"
	"sync"
)

type ObResult struct {
	Name   string            `json:"name"`
	Kind   string            `json:"kind"`
	Func   string            `json:"func"`
	Pos    string            `json:"pos"`
	Clause string            `json:"clause"`
	Descr  string            `json:"descr"`
	Expect string            `json:"expect"`
	Status string            `json:"status"`
	Solver string            `json:"solver"`
	Secs   float64           `json:"secs"`
	Bytes  int               `json:"bytes"`
	Output string            `json:"output,omitempty"`
	Model  map[string]string `json:"model,omitempty"`
}

type FuncRecord struct {
	Key         string     `json:"key"`
	Split       string     `json:"split"`
	Rejected    string     `json:"rejected,omitempty"`
	SpecErrs    []string   `json:"spec_errs,omitempty"`
	Assumes     []string   `json:"assumes,omitempty"`
	UsedCons    []string   `json:"used_contracts,omitempty"`
	NoContract  []string   `json:"no_contract,omitempty"`
	ExternNoCon []string   `json:"extern_no_contract,omitempty"`
	AutoFramed  []string   `json:"auto_framed,omitempty"`
	Obs         []ObResult `json:"obligations"`
}

func toRecord(r *FuncResult) FuncRecord {
	rec := FuncRecord{Key: r.Key, Split: r.Split, Rejected: r.Rejected, SpecErrs: r.SpecErrs, Assumes: r.Assumes, UsedCons: r.UsedCons,
		NoContract: r.NoContract, ExternNoCon: r.ExternNoCon, AutoFramed: r.AutoFramed}
	for _, q := range r.Queries {
		o := ObResult{Name: q.Name, Kind: q.Kind, Func: q.Func, Pos: q.Pos, Clause: clauseOf(q), Descr: q.Descr, Expect: q.Expect,
			Status: q.Result.Status, Solver: q.Result.Solver, Secs: q.Result.Secs, Bytes: q.Bytes}
		if q.Result.Status != "unsat" {
			out := q.Result.Output
			if len(out) > 4000 {
				out = out[:4000]
			}
			o.Output = out
			if q.obl != nil && q.Result.Status == "sat" {
				o.Model = modelInputs(q.obl.Inputs, q.Result.Output)
			}
		}
		rec.Obs = append(rec.Obs, o)
	}
	return rec
}

// cmdWorker: vcgo worker -repo R -extern E -timeout T [-all] [-known regexps] [-split a,b] func...   -> JSON on stdout
func cmdWorker(args []string) {
	fs := flag.NewFlagSet("worker", flag.ExitOnError)
	repo := fs.String("repo", "/repo", "")
	ext := fs.String("extern", "/verif/contracts/extern", "")
	timeout := fs.Int("timeout", 20, "")
	all := fs.Bool("all-solvers", false, "")
	par := fs.Int("par", 4, "")
	short := fs.String("short", "", "regexp of stable obligation names that get a 4 s timeout (known findings)")
	sweep := fs.String("nopanic", "", "comma separated functions verified as a no-panic sweep")
	fs.StringVar(&onlySplit, "split", "", "")
	fs.Parse(args)
	v, err := loadVerifier(*repo, *ext)
	if err != nil {
		fmt.Fprintln(os.Stderr, "ENGINE-FAULT load:", err)
		os.Exit(2)
	}
	for _, k := range strings.Split(*sweep, ",") {
		if k = strings.TrimSpace(k); k != "" {
			v.enableNoPanic(k)
		}
	}
	queryDir, _ = os.MkdirTemp("", "vcgo-w-")
	defer os.RemoveAll(queryDir)
	var recs []FuncRecord
	for _, k := range fs.Args() {
		results := v.runFuncs([]string{k})
		var qs []*Query
		for _, r := range results {
			for _, q := range r.Queries {
				if *short != "" && matchOb(*short, stableName(q.Name)) {
					q.Timeout = 4
				}
				qs = append(qs, q)
			}
		}
		runQueries(qs, *timeout, *all, *par)
		for _, r := range results {
			recs = append(recs, toRecord(r))
		}
		for _, q := range qs {
			if q.File != "" {
				os.Remove(q.File)
			}
		}
	}
	json.NewEncoder(os.Stdout).Encode(recs)
}

// treeHash: hash of everything a verification result depends on.
func treeHash(repo, root, tier string, timeout int) string {
	h := sha256.New()
	add := func(dir string, suffixes ...string) {
		var files []string
		filepath.WalkDir(dir, func(p string, d fs.DirEntry, err error) error {
			if err != nil || d.IsDir() {
				return nil
			}
			for _, s := range suffixes {
				if strings.HasSuffix(p, s) {
					files = append(files, p)
				}
			}
			return nil
		})
		sort.Strings(files)
		for _, f := range files {
			b, _ := os.ReadFile(f)
			fmt.Fprintf(h, "%s %d\n", f, len(b))
			h.Write(b)
		}
	}
	add(filepath.Join(repo, "internal"), ".go")
	add(filepath.Join(repo, "go.mod"))
	add(filepath.Join(root, "contracts"), ".spec")
	add(filepath.Join(root, "vcgo"), ".go")
	if b, err := os.ReadFile(filepath.Join(root, "known_findings.json")); err == nil {
		h.Write(b)
	}
	fmt.Fprintf(h, "%s %d", tier, timeout)
	return hex.EncodeToString(h.Sum(nil))[:24]
}

// verifyShared verifies one function through worker processes (split cases in parallel) with a result cache.
func verifyShared(v *Verifier, repo, root, key, tier string, timeout int, all bool, short string) ([]FuncRecord, error) {
	con := v.specs.Contracts[key]
	var labels []string
	if con != nil && len(con.Splits) > 0 {
		for i, cs := range con.Splits[0].Cases {
			l := cs.Label
			if l == "" {
				l = fmt.Sprint(i + 1)
			}
			labels = append(labels, l)
		}
	}
	cacheDir := filepath.Join(root, ".cache")
	os.MkdirAll(cacheDir, 0o755)
	cf := filepath.Join(cacheDir, sanitize(key)+"-"+treeHash(repo, root, tier, timeout)+".json")
	if b, err := os.ReadFile(cf); err == nil {
		var recs []FuncRecord
		if json.Unmarshal(b, &recs) == nil && len(recs) > 0 {
			return recs, nil
		}
	}
	nw := 16
	if len(labels) < 16 {
		nw = 1
	}
	groups := make([][]string, nw)
	for i, l := range labels {
		groups[i%nw] = append(groups[i%nw], l)
	}
	self, _ := os.Executable()
	var mu sync.Mutex
	var recs []FuncRecord
	var firstErr error
	var wg sync.WaitGroup
	for _, g := range groups {
		if len(labels) > 0 && len(g) == 0 {
			continue
		}
		wg.Add(1)
		go func(g []string) {
			defer wg.Done()
			args := []string{"worker", "-repo", repo, "-extern", filepath.Join(root, "contracts", "extern"), "-timeout", fmt.Sprint(timeout), "-par", fmt.Sprint(16/nw + 1)}
			if all {
				args = append(args, "-all-solvers")
			}
			if short != "" {
				args = append(args, "-short", short)
			}
			if len(g) > 0 {
				args = append(args, "-split", strings.Join(g, ","))
			}
			args = append(args, key)
			cmd := exec.Command(self, args...)
			cmd.Stderr = os.Stderr
			out, err := cmd.Output()
			var rs []FuncRecord
			if err == nil {
				err = json.Unmarshal(out, &rs)
			}
			mu.Lock()
			defer mu.Unlock()
			if err != nil && firstErr == nil {
				firstErr = fmt.Errorf("worker for %s %v: %v", key, g, err)
			}
			recs = append(recs, rs...)
		}(g)
	}
	wg.Wait()
	if firstErr != nil {
		return nil, firstErr
	}
	sort.Slice(recs, func(i, j int) bool { return recs[i].Split < recs[j].Split })
	if b, err := json.Marshal(recs); err == nil {
		// keep at most a few cache files
		old, _ := filepath.Glob(filepath.Join(cacheDir, sanitize(key)+"-*.json"))
		for _, o := range old {
			os.Remove(o)
		}
		os.WriteFile(cf, b, 0o644)
	}
	return recs, nil
}

// verifyParallel spreads functions over worker processes (largest first is unknown, so round-robin).
func verifyParallel(repo, root string, keys, sweep []string, timeout int, all bool, short string) ([]FuncRecord, error) {
	nw := 16
	if len(keys) < nw {
		nw = len(keys)
	}
	groups := make([][]string, nw)
	for i, k := range keys {
		groups[i%nw] = append(groups[i%nw], k)
	}
	self, _ := os.Executable()
	var mu sync.Mutex
	byKey := map[string][]FuncRecord{}
	var firstErr error
	var wg sync.WaitGroup
	for _, g := range groups {
		wg.Add(1)
		go func(g []string) {
			defer wg.Done()
			args := []string{"worker", "-repo", repo, "-extern", filepath.Join(root, "contracts", "extern"), "-timeout", fmt.Sprint(timeout), "-par", fmt.Sprint(16/nw + 1)}
			if all {
				args = append(args, "-all-solvers")
			}
			if short != "" {
				args = append(args, "-short", short)
			}
			if len(sweep) > 0 {
				args = append(args, "-nopanic", strings.Join(sweep, ","))
			}
			args = append(args, g...)
			cmd := exec.Command(self, args...)
			cmd.Stderr = os.Stderr
			out, err := cmd.Output()
			var rs []FuncRecord
			if err == nil {
				err = json.Unmarshal(out, &rs)
			}
			mu.Lock()
			defer mu.Unlock()
			if err != nil && firstErr == nil {
				firstErr = fmt.Errorf("worker for %v: %v", g, err)
			}
			for _, r := range rs {
				byKey[r.Key] = append(byKey[r.Key], r)
			}
		}(g)
	}
	wg.Wait()
	if firstErr != nil {
		return nil, firstErr
	}
	var recs []FuncRecord
	for _, k := range keys {
		recs = append(recs, byKey[k]...)
	}
	return recs, nil
}
