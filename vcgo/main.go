package main

import (
	"flag"
	"fmt"
	"go/ast"
	"os"
	"path/filepath"
	"sort"
	"strings"
	"time"

	"golang.org/x/tools/go/packages"
)

var repoPkgs = []string{"./internal/..."}

func loadVerifier(repo, externDir string) (*Verifier, error) {
	cfg := &packages.Config{
		Mode:       packages.NeedName | packages.NeedFiles | packages.NeedSyntax | packages.NeedTypes | packages.NeedTypesInfo | packages.NeedImports,
		Dir:        repo,
		BuildFlags: []string{"-tags=verif"},
		Env:        append(os.Environ(), "GOFLAGS=-mod=mod", "GOPROXY=off"),
	}
	pkgs, err := packages.Load(cfg, repoPkgs...)
	if err != nil {
		return nil, err
	}
	v := &Verifier{pkgs: map[string]*packages.Package{}, specs: newSpecs(), funcs: map[string]*ast.FuncDecl{}, funcPkg: map[string]*packages.Package{}, assumed: map[string]bool{}, repoRoot: repo}
	for _, p := range pkgs {
		if len(p.Errors) > 0 {
			return nil, fmt.Errorf("package %s: %v", p.PkgPath, p.Errors)
		}
		v.pkgs[p.Name] = p
		v.fset = p.Fset
		for _, f := range p.Syntax {
			for _, d := range f.Decls {
				if fd, ok := d.(*ast.FuncDecl); ok {
					k := funcKey(p.Name, fd)
					v.funcs[k] = fd
					v.funcPkg[k] = p
				}
			}
		}
		cf := filepath.Join(repo, "internal", p.Name, "contracts_verif.go")
		if _, err := os.Stat(cf); err == nil {
			if err := v.specs.loadSpecFile(cf, p.Name, false); err != nil {
				return nil, err
			}
		}
	}
	ext, _ := filepath.Glob(filepath.Join(externDir, "*.spec"))
	sort.Strings(ext)
	for _, f := range ext {
		if err := v.specs.loadSpecFile(f, "", true); err != nil {
			return nil, err
		}
	}
	v.computeEffects()
	// field invariants: the field may be assigned only by functions whose contract is flagged `constructor`
	for f := range v.specs.FieldInv {
		for _, fn := range v.assignedIn[f] {
			if c := v.specs.Contracts[fn]; c == nil || !c.Flags["constructor"] {
				return nil, fmt.Errorf("fieldinv %s: the field is assigned in %s, which is not flagged `constructor`", f, fn)
			}
		}
	}
	return v, nil
}

// enableNoPanic turns the no-panic sweep on for a function (zero annotations needed): every index, slice, nil
// dereference, division and explicit panic becomes an obligation; pointer parameters are assumed non-nil.
func (v *Verifier) enableNoPanic(key string) {
	c := v.specs.Contracts[key]
	if c == nil {
		c = &Contract{Key: key, Loops: map[int]*LoopSpec{}, Flags: map[string]bool{}, Asserts: map[string][]Clause{}}
		v.specs.Contracts[key] = c
		c.Flags["sweep-only"] = true
	}
	c.Flags["nopanic"] = true
	c.Flags["nonnil-params"] = true
}

// runFuncs verifies the listed functions (all split cases) and returns results.
func (v *Verifier) runFuncs(keys []string) []*FuncResult {
	var out []*FuncResult
	for _, k := range keys {
		if strings.HasPrefix(k, "lemma.") {
			found := false
			for _, ax := range v.specs.Axioms {
				if ax.Lemma && ax.Name == k[6:] {
					out = append(out, v.verifyLemma(ax))
					found = true
				}
			}
			if !found {
				out = append(out, &FuncResult{Key: k, Rejected: "no such lemma"})
			}
			continue
		}
		con := v.specs.Contracts[k]
		if con != nil && len(con.Splits) > 0 {
			sp := con.Splits[0]
			for i := range sp.Cases {
				cs := sp.Cases[i]
				label := cs.Label
				if label == "" {
					label = fmt.Sprint(i + 1)
				}
				if onlySplit != "" && !strings.Contains(","+onlySplit+",", ","+label+",") {
					continue
				}
				if sp.AtCall != "" {
					pendingSplitCall = sp.AtCall
				}
				out = append(out, v.verifyFunc(k, sp.Name, sp.Name+"="+label, &cs))
				pendingSplitCall = ""
			}
			continue
		}
		out = append(out, v.verifyFunc(k, "", "", nil))
	}
	return out
}

var onlySplit string
var pendingSplitCall string

func main() {
	if len(os.Args) < 2 {
		fmt.Fprintln(os.Stderr, "usage: vcgo verify|check ...")
		os.Exit(2)
	}
	switch os.Args[1] {
	case "verify":
		cmdVerify(os.Args[2:])
	case "check":
		cmdCheck(os.Args[2:])
	case "worker":
		cmdWorker(os.Args[2:])
	case "loops":
		// developer aid: loop / iterator-call / closure ordinals and call-site ordinals of a function
		v, err := loadVerifier("/repo", "/verif/contracts/extern")
		if err != nil {
			fmt.Fprintln(os.Stderr, err)
			os.Exit(2)
		}
		for _, k := range os.Args[2:] {
			c, err := v.newCtx(k)
			if err != nil {
				fmt.Println(err)
				continue
			}
			type ent struct {
				pos  string
				what string
			}
			var es []ent
			for n, o := range c.loopOrd {
				kind := "loop"
				if o > 1000 {
					kind = "closure"
					o -= 1000
				}
				es = append(es, ent{c.pos(n), fmt.Sprintf("%s %d", kind, o)})
			}
			c.siteOrd(nil, "")
			for ce, o := range c.siteOrds {
				if ci := c.calleeOf(ce); ci.fn != nil {
					es = append(es, ent{c.pos(ce), fmt.Sprintf("call %s#%d", typesFuncKey(ci.fn), o)})
				}
			}
			sort.Slice(es, func(i, j int) bool {
				a, b := es[i].pos, es[j].pos
				if len(a) != len(b) {
					return len(a) < len(b)
				}
				return a < b
			})
			for _, e := range es {
				fmt.Printf("%-40s %s\n", e.pos, e.what)
			}
		}
	case "effects":
		v, err := loadVerifier("/repo", "/verif/contracts/extern")
		if err != nil {
			fmt.Fprintln(os.Stderr, err)
			os.Exit(2)
		}
		for _, k := range os.Args[2:] {
			for fk := range v.funcs {
				if strings.Contains(fk, k) {
					fmt.Printf("%-45s %s\n", fk, v.effectSummary(fk))
					if os.Getenv("VCGO_FIELD") != "" {
						for callee := range v.effects[fk].Calls {
							if ce := v.effects[callee]; ce != nil && ce.W[os.Getenv("VCGO_FIELD")] {
								fmt.Printf("      writes %s via %s\n", os.Getenv("VCGO_FIELD"), callee)
							}
						}
						if d := v.directEffects(v.funcPkg[fk], v.funcs[fk]); d.W[os.Getenv("VCGO_FIELD")] {
							fmt.Printf("      writes %s directly\n", os.Getenv("VCGO_FIELD"))
						}
					}
					if ef := v.effects[fk]; ef != nil && len(ef.Unknown) > 0 {
						fmt.Printf("      unknown: %v\n", sortedKeys(ef.Unknown))
					}
				}
			}
		}
	default:
		fmt.Fprintln(os.Stderr, "unknown subcommand")
		os.Exit(2)
	}
}

// cmdVerify: developer front end – verify named functions and print a table.
func cmdVerify(args []string) {
	fs := flag.NewFlagSet("verify", flag.ExitOnError)
	repo := fs.String("repo", "/repo", "repository root")
	ext := fs.String("extern", "/verif/contracts/extern", "extern contract directory")
	out := fs.String("out", "/tmp/vcgo-out", "query output directory")
	timeout := fs.Int("timeout", 20, "per-obligation timeout (s)")
	all := fs.Bool("all-solvers", false, "wait for all solvers and require agreement")
	verbose := fs.Bool("v", false, "verbose")
	sweep := fs.Bool("nopanic", false, "treat the named functions as a no-panic sweep (zero annotations)")
	fs.StringVar(&onlySplit, "split", "", "only these split cases (comma separated labels)")
	fs.Parse(args)
	t0 := time.Now()
	v, err := loadVerifier(*repo, *ext)
	if err != nil {
		fmt.Fprintln(os.Stderr, "load:", err)
		os.Exit(2)
	}
	fmt.Printf("loaded in %.1fs\n", time.Since(t0).Seconds())
	queryDir = *out
	os.MkdirAll(queryDir, 0o755)
	if *sweep {
		for _, k := range fs.Args() {
			v.enableNoPanic(k)
		}
	}
	results := v.runFuncs(fs.Args())
	var qs []*Query
	for _, r := range results {
		qs = append(qs, r.Queries...)
	}
	runQueries(qs, *timeout, *all, 16)
	bad := 0
	for _, r := range results {
		fmt.Printf("== %s %s\n", r.Key, r.Split)
		if r.Rejected != "" {
			fmt.Printf("   REJECTED: %s\n", r.Rejected)
			bad++
		}
		for _, e := range r.SpecErrs {
			fmt.Printf("   SPEC ERROR: %s\n", e)
			bad++
		}
		if *verbose {
			for _, w := range r.Warns {
				fmt.Printf("   warn: %s\n", w)
			}
			for _, a := range r.Assumes {
				fmt.Printf("   assume: %s\n", a)
			}
			fmt.Printf("   contracts used: %v\n   no contract (repo): %v\n   extern without contract: %v\n", r.UsedCons, r.NoContract, r.ExternNoCon)
		}
		for _, q := range r.Queries {
			ok := q.Result.Status == "unsat"
			if q.Expect == "notunsat" {
				ok = q.Result.Status != "unsat"
			}
			mark := "ok  "
			if !ok {
				mark = "FAIL"
				bad++
			}
			if !ok || *verbose {
				fmt.Printf("   %s %-70s %s %s %.2fs %s\n", mark, q.Name, q.Result.Status, q.Result.Solver, q.Result.Secs, q.Pos)
				if !ok && q.obl != nil && q.obl.Clause != "" {
					fmt.Printf("        clause: %s\n", q.obl.Clause)
				}
				if q.Result.Status == "error" {
					o := q.Result.Output
					if len(o) > 300 {
						o = o[:300]
					}
					fmt.Printf("        solver: %s\n", strings.ReplaceAll(o, "\n", " | "))
				}
			}
		}
		fmt.Printf("   %d obligations\n", len(r.Queries))
	}
	fmt.Printf("total %.1fs, %d problems\n", time.Since(t0).Seconds(), bad)
	if bad > 0 {
		os.Exit(1)
	}
}
