package main

// Evaluation of specification expressions (Go expression syntax + builtins) into SMT terms.

import (
	"fmt"
	"go/ast"
	"go/token"
	"go/types"
	"golang.org/x/tools/go/packages"
	"os"
	"runtime/debug"
	"strconv"
	"strings"
)

type SpecEnv struct {
	c          *FnCtx
	st         *State
	old        *SpecEnv
	lookup     func(name string) *Val
	bound      map[string]*Val
	calleeKey  string
	calleePost bool              // evaluating a callee's ensures at a call site (assumed, not proved)
	alias      map[string]string // macro parameter -> identifier it was instantiated with
}

func (e *SpecEnv) realName(n string) string {
	for i := 0; i < 8; i++ {
		a, ok := e.alias[n]
		if !ok || a == n {
			break
		}
		n = a
	}
	return n
}

func (e *SpecEnv) withBound(name string, v *Val) *SpecEnv {
	n := *e
	n.bound = map[string]*Val{}
	for k, x := range e.bound {
		n.bound[k] = x
	}
	n.bound[name] = v
	if e.old != nil && e.old != e {
		o := *e.old
		o.bound = n.bound
		o.alias = e.alias
		if o.old == e.old {
			o.old = &o
		}
		n.old = &o
	} else if e.old == e {
		n.old = &n
	}
	return &n
}

// specEnvAt builds the environment of the function under verification at a source position.
func (c *FnCtx) specEnvAt(st *State, pos token.Pos) *SpecEnv {
	scope := c.pkg.Types.Scope().Innermost(pos)
	mk := func(s *State, isOld bool) func(string) *Val {
		return func(name string) *Val {
			if name == "result" && len(c.results) > 0 {
				return s.vars[c.results[0]]
			}
			if c.con != nil && c.con.Iter != nil {
				switch name {
				case "nvisited":
					// elements of S consumed: all of S if the callback never said stop, else up to the stopping one
					np := c.ghostGet(s, c.traceGhost("nextpos."+c.con.Iter.Param, SInt))
					last := c.ghostGet(s, c.traceGhost("lastret."+c.con.Iter.Param, SBool))
					pe := &SpecEnv{c: c, st: c.pre, lookup: func(n string) *Val { return c.entry[n] }}
					pe.old = pe
					if c.con.Iter.Seq.Expr == nil {
						return &Val{T: np, S: SInt}
					}
					S := c.specEval(pe, c.con.Iter.Seq.Expr)
					return &Val{T: tIte(last, c.seqLen(S), np), S: SInt}
				case "lastret":
					if gv, ok := c.V.specs.GhostVars["lastret."+c.con.Iter.Param]; ok {
						return &Val{T: c.ghostGet(s, gv), S: SBool}
					}
				}
			}
			if strings.HasPrefix(name, "result") {
				if i, err := strconv.Atoi(name[6:]); err == nil && i < len(c.results) {
					return s.vars[c.results[i]]
				}
			}
			if scope != nil {
				if _, o := scope.LookupParent(name, pos); o != nil {
					if v, ok := o.(*types.Var); ok {
						if isOld {
							if ev, ok := c.entry[name]; ok && c.isParam(v) {
								return ev
							}
						}
						if val, ok := s.vars[v]; ok {
							return val
						}
						if v.Pkg() != nil && v.Parent() == v.Pkg().Scope() {
							return c.globalVar(s, v)
						}
						// a local that is in scope here but has no value on this path (declared after an early
						// return, or in a branch not taken): any value will do - obligations must hold for all of them
						if !isOld && c.sortOf(v.Type()) != SNone {
							return c.havocVal(s, v.Type(), "unset_"+v.Name())
						}
					}
					if k, ok := o.(*types.Const); ok {
						return c.constVal(k.Val(), k.Type())
					}
				}
			}
			// entry value x0
			if strings.HasSuffix(name, "0") {
				if ev, ok := c.entry[name[:len(name)-1]]; ok {
					return ev
				}
			}
			// the sequence an iterator loop runs over: seq<N>
			if strings.HasPrefix(name, "seq") {
				if n, err := strconv.Atoi(name[3:]); err == nil {
					for node, v := range c.mapSeqOf {
						if c.loopOrd[node] == n {
							return v
						}
					}
				}
			}
			// the key sequence a range-over-map loop runs over: mkeys<N>
			if strings.HasPrefix(name, "mkeys") {
				if n, err := strconv.Atoi(name[5:]); err == nil {
					for node, v := range c.mapSeqOf {
						if c.loopOrd[node] == n {
							return v
						}
					}
				}
			}
			// length of the sequence a range / iterator loop runs over (fixed when the loop starts): rlen<N>
			if strings.HasPrefix(name, "rlen") {
				if n, err := strconv.Atoi(name[4:]); err == nil {
					for node, t := range c.rangeLen {
						if c.loopOrd[node] == n {
							return &Val{T: t, S: SInt}
						}
					}
				}
			}
			// range index of an enclosing range loop: idx<N>
			if strings.HasPrefix(name, "idx") {
				if n, err := strconv.Atoi(name[3:]); err == nil {
					for node, o := range c.rangeIdx {
						if c.loopOrd[node] == n {
							if v, ok := s.vars[o]; ok {
								return v
							}
						}
					}
				}
			}
			return nil
		}
	}
	env := &SpecEnv{c: c, st: st, lookup: mk(st, false)}
	old := &SpecEnv{c: c, st: c.pre, lookup: mk(c.pre, true)}
	old.old = old
	env.old = old
	return env
}

func (c *FnCtx) isParam(v *types.Var) bool {
	for _, p := range c.params {
		if p == v {
			return true
		}
	}
	return false
}

func (c *FnCtx) specBool(env *SpecEnv, e ast.Expr) string {
	v := c.specEval(env, e)
	if v.S != SBool {
		c.specErr("spec expression is not boolean: %s", exprString(e))
		return "false"
	}
	return v.T
}

func (c *FnCtx) specErr(format string, a ...any) {
	msg := fmt.Sprintf(format, a...)
	if os.Getenv("VCGO_DEBUG") != "" {
		fmt.Fprintln(os.Stderr, "SPECERR", msg)
		debug.PrintStack()
	}
	for _, x := range c.specErrs {
		if x == msg {
			return
		}
	}
	c.specErrs = append(c.specErrs, msg)
}

func exprString(e ast.Expr) string {
	return types.ExprString(e)
}

func (c *FnCtx) specEval(env *SpecEnv, e ast.Expr) *Val {
	switch x := e.(type) {
	case *ast.ParenExpr:
		return c.specEval(env, x.X)
	case *ast.BasicLit:
		switch x.Kind {
		case token.INT:
			n, err := strconv.ParseInt(x.Value, 0, 64)
			if err != nil {
				u, _ := strconv.ParseUint(x.Value, 0, 64)
				return &Val{T: fmt.Sprint(u), S: SInt}
			}
			return &Val{T: tInt(n), S: SInt}
		case token.CHAR:
			r, _, _, err := strconv.UnquoteChar(x.Value[1:len(x.Value)-1], '\'')
			if err != nil {
				c.specErr("bad char literal %s", x.Value)
			}
			return &Val{T: tInt(int64(r)), S: SInt}
		case token.STRING:
			s, err := strconv.Unquote(x.Value)
			if err != nil {
				c.specErr("bad string literal %s", x.Value)
			}
			return &Val{T: c.strLit(s), S: SStr}
		case token.FLOAT:
			return &Val{T: x.Value, S: SReal}
		}
	case *ast.Ident:
		switch x.Name {
		case "true", "false":
			return &Val{T: x.Name, S: SBool}
		case "nil":
			return &Val{T: "0", S: SInt}
		}
		if v, ok := env.bound[x.Name]; ok {
			return v
		}
		if v := env.lookup(x.Name); v != nil {
			return v
		}
		if gv, ok := c.V.specs.GhostVars[x.Name]; ok {
			return &Val{T: c.ghostGet(env.st, gv), S: gv.Sort}
		}
		if cs, ok := c.V.specs.Consts[x.Name]; ok {
			ce, err := parseSpecExpr(cs)
			if err == nil {
				return c.specEval(env, ce)
			}
		}
		if gf, ok := c.V.specs.Ghosts[x.Name]; ok && len(gf.Params) == 0 {
			return c.ghostCall(env, gf, nil)
		}
		// package-level constant of the callee's (or the current) package
		for _, pk := range []*packages.Package{c.V.funcPkg[env.calleeKey], c.pkg} {
			if pk != nil && pk.Types != nil {
				if k, ok := pk.Types.Scope().Lookup(x.Name).(*types.Const); ok {
					return c.constVal(k.Val(), k.Type())
				}
			}
		}
		c.specErr("contract does not resolve: %s (in %s)", x.Name, c.key)
		return &Val{T: c.fresh("unresolved_"+x.Name, SInt), S: SInt}
	case *ast.UnaryExpr:
		v := c.specEval(env, x.X)
		switch x.Op {
		case token.NOT:
			return &Val{T: tNot(v.T), S: SBool}
		case token.SUB:
			return &Val{T: tApp("-", v.T), S: v.S}
		}
	case *ast.BinaryExpr:
		a := c.specEval(env, x.X)
		b := c.specEval(env, x.Y)
		switch x.Op {
		case token.LAND:
			return &Val{T: tAnd(a.T, b.T), S: SBool}
		case token.LOR:
			return &Val{T: tOr(a.T, b.T), S: SBool}
		}
		if a.S == SBool && b.S == SBool && (x.Op == token.EQL || x.Op == token.NEQ) {
			t := tEq(a.T, b.T)
			if x.Op == token.NEQ {
				t = tNot(t)
			}
			return &Val{T: t, S: SBool}
		}
		if isArr(a.S) && (x.Op == token.EQL || x.Op == token.NEQ) {
			t := tEq(a.T, b.T)
			if x.Op == token.NEQ {
				t = tNot(t)
			}
			return &Val{T: t, S: SBool}
		}
		return c.binop(env.st, x.Op, a, b, nil, nil)
	case *ast.SelectorExpr:
		base := c.specEval(env, x.X)
		return c.specField(env, base, x.Sel.Name)
	case *ast.IndexExpr:
		base := c.specEval(env, x.X)
		idx := c.specEval(env, x.Index)
		switch {
		case base.S == SStr || isSeq(base.S):
			r := &Val{T: c.seqAt(base, idx.T), S: elemSort(base.S)}
			if base.Typ != nil {
				switch u := base.Typ.Underlying().(type) {
				case *types.Slice:
					r.Typ = u.Elem()
				case *types.Array:
					r.Typ = u.Elem()
				}
			}
			if r.Typ != nil && c.sortOf(r.Typ) == SNone {
				// slice of structs: the element is a reference to a pseudo-object holding the struct's fields
				return &Val{S: SNone, Typ: r.Typ, Box: r.T, T: typeShortName(r.Typ)}
			}
			return r
		case isArr(base.S):
			_, vs := arrParts(base.S)
			r := &Val{T: tApp("select", base.T, idx.T), S: vs}
			// an abstract generic container (btree.Map[K, V]): the element has the type of its last type argument
			if base.Typ != nil && vs == SInt {
				bt := base.Typ
				if p, ok := bt.Underlying().(*types.Pointer); ok {
					bt = p.Elem()
				}
				if nt, ok := types.Unalias(bt).(*types.Named); ok && nt.TypeArgs() != nil && nt.TypeArgs().Len() > 0 {
					r.Typ = nt.TypeArgs().At(nt.TypeArgs().Len() - 1)
				}
			}
			return r
		}
		if base.Typ != nil {
			if mt, ok := base.Typ.Underlying().(*types.Map); ok {
				v, _ := c.mapLoad(env.st, base, mt, idx)
				return v
			}
		}
		c.specErr("cannot index %s", exprString(x.X))
	case *ast.SliceExpr:
		base := c.specEval(env, x.X)
		if base.S != SStr && !isSeq(base.S) {
			c.specErr("cannot slice %s", exprString(x.X))
			break
		}
		lo, hi := "0", c.seqLen(base)
		if x.Low != nil {
			lo = c.specEval(env, x.Low).T
		}
		if x.High != nil {
			hi = c.specEval(env, x.High).T
		}
		return &Val{T: c.seqSub(base, lo, hi), S: base.S, Typ: base.Typ}
	case *ast.CallExpr:
		return c.specCall(env, x)
	case *ast.StarExpr:
		p := c.specEval(env, x.X)
		if p.Typ != nil {
			if pt, ok := p.Typ.Underlying().(*types.Pointer); ok {
				return c.deref(env.st, p, pt.Elem(), nil)
			}
		}
	}
	c.specErr("unsupported spec expression %s", exprString(e))
	return &Val{T: c.fresh("specbad", SBool), S: SBool}
}

func (c *FnCtx) ghostGet(st *State, gv *GhostVar) string {
	if t, ok := st.ghost[gv.Name]; ok {
		return t
	}
	name := "ghost0_" + sanitizeSym(gv.Name)
	if _, declared := c.decls.funs[name]; !declared && (strings.HasPrefix(gv.Name, "calls.") || strings.HasPrefix(gv.Name, "calls2.")) {
		// call traces are empty on entry
		c.declSeq(gv.Sort)
		c.decls.declFun(name, nil, gv.Sort)
		c.addFact(tEq(name, "empty_"+sortName(gv.Sort)))
	}
	if _, declared := c.decls.funs[name]; !declared && strings.HasPrefix(gv.Name, "nextpos.") {
		c.decls.declFun(name, nil, gv.Sort)
		c.addFact(tEq(name, "0"))
	}
	if _, declared := c.decls.funs[name]; !declared && strings.HasPrefix(gv.Name, "lastret.") {
		c.decls.declFun(name, nil, gv.Sort)
		c.addFact(name) // no invocation yet: "the last answer" is true
	}
	c.decls.declFun(name, nil, gv.Sort)
	st.ghost[gv.Name] = name
	if c.pre != nil {
		if _, ok := c.pre.ghost[gv.Name]; !ok {
			c.pre.ghost[gv.Name] = name
		}
	}
	return name
}

func (c *FnCtx) specField(env *SpecEnv, base *Val, name string) *Val {
	if base.Typ == nil {
		c.specErr("field %s of untyped spec value", name)
		return &Val{T: c.fresh("specbad", SInt), S: SInt}
	}
	stt, _ := structOf(base.Typ)
	if stt == nil {
		c.specErr("field %s of non-struct %s", name, base.Typ)
		return &Val{T: c.fresh("specbad", SInt), S: SInt}
	}
	for i := 0; i < stt.NumFields(); i++ {
		f := stt.Field(i)
		if f.Name() != name {
			continue
		}
		if _, isPtr := base.Typ.Underlying().(*types.Pointer); isPtr {
			return c.loadFieldQuiet(env.st, base.T, typeShortName(base.Typ), f.Name(), f.Type())
		}
		if base.Box != "" {
			owner, path := splitOwner(base.T)
			np := name
			if path != "" {
				np = path + "." + name
			}
			return c.loadFieldQuiet(env.st, base.Box, owner, np, f.Type())
		}
		return c.fieldOfVal(env.st, base, f.Name(), f.Type())
	}
	// promoted field of an embedded struct
	for i := 0; i < stt.NumFields(); i++ {
		f := stt.Field(i)
		if !f.Embedded() {
			continue
		}
		if est, _ := structOf(f.Type()); est != nil && hasFieldDeep(est, name, 4) {
			inner := c.specField(env, base, f.Name())
			return c.specField(env, inner, name)
		}
	}
	c.specErr("contract does not resolve: field %s of %s", name, base.Typ)
	return &Val{T: c.fresh("specbad", SInt), S: SInt}
}

func hasFieldDeep(st *types.Struct, name string, depth int) bool {
	for i := 0; i < st.NumFields(); i++ {
		f := st.Field(i)
		if f.Name() == name {
			return true
		}
		if f.Embedded() && depth > 0 {
			if est, _ := structOf(f.Type()); est != nil && hasFieldDeep(est, name, depth-1) {
				return true
			}
		}
	}
	return false
}

// loadFieldQuiet reads a field without adding type facts to the state (spec context).
func (c *FnCtx) loadFieldQuiet(st *State, ref, owner, path string, ft types.Type) *Val {
	s := c.sortOf(ft)
	if s == SNone {
		return &Val{S: SNone, Typ: ft, Box: ref, T: owner + "." + path}
	}
	h := c.heapGet(st, owner+"."+path, s)
	v := &Val{T: tApp("select", h, ref), S: s, Typ: ft}
	if at, ok := ft.Underlying().(*types.Array); ok && (s == SStr || isSeq(s)) && !strings.Contains(ref, "!q") {
		// every value of an array type has the array's length
		c.addFact(tEq(c.seqLen(v), fmt.Sprint(at.Len())))
	}
	if c.V.specs.FieldInv[owner+"."+path] == "nonnil" && s == SInt && !strings.Contains(ref, "!q") {
		// constructor-established, never reassigned: holds in every heap for every object that exists
		c.addFact(tOr(tEq(ref, "0"), tNot(tEq(v.T, "0"))))
	}
	return v
}

var jsonDocSort Sort

func (c *FnCtx) specCall(env *SpecEnv, x *ast.CallExpr) *Val {
	name := ""
	switch f := x.Fun.(type) {
	case *ast.Ident:
		name = f.Name
	case *ast.SelectorExpr:
		// method-like call on spec values is not supported; allow pkg.Func for ghost funcs
		name = f.Sel.Name
	}
	arg := func(i int) *Val { return c.specEval(env, x.Args[i]) }
	quant := func(q string, sort Sort, withRange bool) *Val {
		id, ok := x.Args[0].(*ast.Ident)
		if !ok {
			c.specErr("%s: first argument must be an identifier", name)
			return &Val{T: "false", S: SBool}
		}
		c.nfresh++
		vn := fmt.Sprintf("%s!q%d", id.Name, c.nfresh)
		bv := &Val{T: vn, S: sort}
		if len(x.Args) > 1 {
			// typed bound variable: allow `allref(r, "*Collection", body)`? not needed
		}
		e2 := env.withBound(id.Name, bv)
		var body string
		var pats []string
		if withRange {
			lo := c.specEval(env, x.Args[1]).T
			hi := c.specEval(env, x.Args[2]).T
			b := c.specBool(e2, x.Args[3])
			rng := tAnd(tApp("<=", lo, vn), tApp("<", vn, hi))
			if q == "forall" {
				body = tImp(rng, b)
			} else {
				body = tAnd(rng, b)
			}
		} else {
			body = c.specBool(e2, x.Args[len(x.Args)-1])
		}
		_ = pats
		return &Val{T: fmt.Sprintf("(%s ((%s %s)) %s)", q, vn, sort, body), S: SBool}
	}
	switch name {
	case "imp":
		return &Val{T: tImp(c.specBool(env, x.Args[0]), c.specBool(env, x.Args[1])), S: SBool}
	case "iff":
		return &Val{T: tEq(c.specBool(env, x.Args[0]), c.specBool(env, x.Args[1])), S: SBool}
	case "ite":
		a, b := arg(1), arg(2)
		return &Val{T: tIte(c.specBool(env, x.Args[0]), a.T, b.T), S: a.S, Typ: a.Typ}
	case "old":
		if env.old == nil {
			c.specErr("old() not available here")
			return arg(0)
		}
		o := *env.old
		o.bound = env.bound
		o.alias = env.alias
		return c.specEval(&o, x.Args[0])
	case "len":
		v := arg(0)
		if v.S == SStr || isSeq(v.S) {
			return &Val{T: c.seqLen(v), S: SInt}
		}
		c.specErr("len of non-sequence %s (sort %q type %v)", exprString(x.Args[0]), v.S, v.Typ)
		return &Val{T: "0", S: SInt}
	case "forall":
		return quant("forall", SInt, true)
	case "exists":
		return quant("exists", SInt, true)
	case "allint":
		return quant("forall", SInt, false)
	case "allstr":
		c.declSeq(SStr)
		return quant("forall", SStr, false)
	case "exint":
		return quant("exists", SInt, false)
	case "exstr":
		c.declSeq(SStr)
		return quant("exists", SStr, false)
	case "allof", "exof":
		bl, ok := x.Args[0].(*ast.BasicLit)
		if !ok {
			c.specErr("%s: first argument must be a sort name string", name)
			return &Val{T: "false", S: SBool}
		}
		sn, _ := strconv.Unquote(bl.Value)
		so, err := parseSortName(sn)
		if err != nil {
			c.specErr("%s: %v", name, err)
			return &Val{T: "false", S: SBool}
		}
		id, ok := x.Args[1].(*ast.Ident)
		if !ok {
			c.specErr("%s: second argument must be an identifier", name)
			return &Val{T: "false", S: SBool}
		}
		c.decls.needSort(so)
		if so == SStr || isSeq(so) {
			c.declSeq(so)
		}
		c.nfresh++
		vn := fmt.Sprintf("%s!q%d", id.Name, c.nfresh)
		body := c.specBool(env.withBound(id.Name, &Val{T: vn, S: so}), x.Args[2])
		q := "forall"
		if name == "exof" {
			q = "exists"
		}
		return &Val{T: fmt.Sprintf("(%s ((%s %s)) %s)", q, vn, so, body), S: SBool}
	case "nextpos":
		if id, ok := x.Args[0].(*ast.Ident); ok {
			return &Val{T: c.ghostGet(env.st, c.traceGhost("nextpos."+env.realName(id.Name), SInt)), S: SInt}
		}
	case "calls", "calls2", "lastret":
		id, ok := x.Args[0].(*ast.Ident)
		if !ok {
			c.specErr("%s: argument must be a parameter name", name)
			return &Val{T: "false", S: SBool}
		}
		gn := name + "." + env.realName(id.Name)
		gv, ok := c.V.specs.GhostVars[gn]
		if !ok {
			// never called on any path so far: empty trace
			if name == "lastret" {
				return &Val{T: "true", S: SBool}
			}
			so := seqSort(SInt)
			c.declSeq(so)
			return &Val{T: "empty_" + sortName(so), S: so}
		}
		return &Val{T: c.ghostGet(env.st, gv), S: gv.Sort}
	case "constmap":
		if bl, ok := x.Args[0].(*ast.BasicLit); ok {
			sn, _ := strconv.Unquote(bl.Value)
			so, err := parseSortName(sn)
			if err == nil {
				c.decls.needSort(so)
				return &Val{T: fmt.Sprintf("((as const %s) %s)", so, arg(1).T), S: so}
			}
		}
	case "fieldmap":
		// fieldmap("pkg.Type.field"): the current content of a field over all objects of the type, as a map ref -> value
		if bl, ok := x.Args[0].(*ast.BasicLit); ok && env.st != nil {
			k, _ := strconv.Unquote(bl.Value)
			parts := strings.Split(k, ".")
			if len(parts) == 3 {
				if pk := c.V.pkgs[parts[0]]; pk != nil {
					if o := pk.Types.Scope().Lookup(parts[1]); o != nil {
						if stt, _ := structOf(o.Type()); stt != nil {
							for i := 0; i < stt.NumFields(); i++ {
								if stt.Field(i).Name() == parts[2] {
									fs := c.sortOf(stt.Field(i).Type())
									if fs != SNone {
										return &Val{T: c.heapGet(env.st, k, fs), S: arrSort(SInt, fs)}
									}
								}
							}
						}
					}
				}
			}
			c.specErr("fieldmap: unknown scalar field %s", k)
		}
		return &Val{T: c.fresh("specbad", SInt), S: SInt}
	case "refof":
		// refof(s[i]): the reference of the pseudo-object that holds a struct element of a slice of structs
		a := arg(0)
		if a.Box != "" {
			return &Val{T: a.Box, S: SInt}
		}
		if a.S == SInt {
			return a
		}
		c.specErr("refof: not a struct element or reference")
		return a
	case "astype":
		// astype(x, "pkg.Type"): x viewed as a *pkg.Type (ghost sequences and maps hold untyped references)
		a := arg(0)
		if bl, ok := x.Args[1].(*ast.BasicLit); ok {
			tn, _ := strconv.Unquote(bl.Value)
			parts := strings.SplitN(tn, ".", 2)
			if len(parts) == 2 {
				if pk := c.V.pkgs[parts[0]]; pk != nil {
					if o := pk.Types.Scope().Lookup(parts[1]); o != nil {
						return &Val{T: a.T, S: SInt, Typ: types.NewPointer(o.Type())}
					}
				}
			}
			c.specErr("astype: unknown type %s", tn)
		}
		return a
	case "pkgvar":
		if bl, ok := x.Args[0].(*ast.BasicLit); ok {
			k, _ := strconv.Unquote(bl.Value)
			n := "G_" + sanitizeSym(k)
			c.decls.declFun(n, nil, SInt)
			c.errGlobals[n] = true
			return &Val{T: n, S: SInt}
		}
	case "funcref":
		if bl, ok := x.Args[0].(*ast.BasicLit); ok {
			k, _ := strconv.Unquote(bl.Value)
			n := "F_" + sanitizeSym(k)
			c.decls.declFun(n, nil, SInt)
			return &Val{T: n, S: SInt}
		}
	case "store":
		a, k, v := arg(0), arg(1), arg(2)
		return &Val{T: tApp("store", a.T, k.T, v.T), S: a.S}
	case "indom":
		// indom(m, k): the Go map m has an entry for k
		m, k := arg(0), arg(1)
		if m.Typ != nil {
			if mt, ok := m.Typ.Underlying().(*types.Map); ok {
				_, present := c.mapLoad(env.st, m, mt, k)
				return &Val{T: present, S: SBool}
			}
		}
		c.specErr("indom: first argument is not a Go map")
		return &Val{T: c.fresh("specbad", SBool), S: SBool}
	case "jsonDoc":
		// decision procedure over the structure of the reply term (jsondoc.go)
		c.assumeNote("jsonDoc(x) is decided by vcgo's own JSON recogniser over the structure of x (literals and classed opaque pieces); trusted")
		a := arg(0)
		jsonDocSort = a.S
		return &Val{T: c.jsonDocTerm(env.st, a.T), S: SBool}
	case "min", "max":
		a, b := arg(0), arg(1)
		op := "<"
		if name == "max" {
			op = ">"
		}
		return &Val{T: tIte(tApp(op, a.T, b.T), a.T, b.T), S: a.S}
	case "cat":
		a, b := arg(0), arg(1)
		c.declSeq(a.S)
		return &Val{T: tApp("cat_"+sortName(a.S), a.T, b.T), S: a.S}
	case "app1":
		a, b := arg(0), arg(1)
		c.declSeq(a.S)
		return &Val{T: tApp("app1_"+sortName(a.S), a.T, b.T), S: a.S}
	case "slt":
		c.needStrOrder = true
		return &Val{T: tApp("slt", arg(0).T, arg(1).T), S: SBool}
	case "sle":
		c.needStrOrder = true
		return &Val{T: tNot(tApp("slt", arg(1).T, arg(0).T)), S: SBool}
	case "emptyseq":
		// emptyseq("[]string")
		if bl, ok := x.Args[0].(*ast.BasicLit); ok {
			s, _ := strconv.Unquote(bl.Value)
			so, err := parseSortName(s)
			if err == nil {
				c.declSeq(so)
				return &Val{T: "empty_" + sortName(so), S: so}
			}
		}
	case "bitand":
		return c.binop(env.st, token.AND, arg(0), arg(1), nil, nil)
	case "f32":
		// round to float32 (RNE) and widen back to float64: the value float64(float32(x)) as an FP64 term
		a := arg(0)
		if isFP(a.S) {
			return &Val{T: fmt.Sprintf("((_ to_fp 11 53) RNE ((_ to_fp 8 24) RNE %s))", a.T), S: "(_ FloatingPoint 11 53)"}
		}
		return a
	case "widen":
		a := arg(0)
		if isFP(a.S) {
			return &Val{T: fmt.Sprintf("((_ to_fp 11 53) RNE %s)", a.T), S: "(_ FloatingPoint 11 53)"}
		}
		return a
	case "isNaN":
		a := arg(0)
		if isFP(a.S) {
			return &Val{T: tApp("fp.isNaN", a.T), S: SBool}
		}
		return &Val{T: "false", S: SBool}
	case "allf64":
		id, ok := x.Args[0].(*ast.Ident)
		if !ok {
			c.specErr("allf64: first argument must be an identifier")
			return &Val{T: "false", S: SBool}
		}
		c.nfresh++
		vn := fmt.Sprintf("%s!q%d", id.Name, c.nfresh)
		body := c.specBool(env.withBound(id.Name, &Val{T: vn, S: "(_ FloatingPoint 11 53)"}), x.Args[1])
		return &Val{T: fmt.Sprintf("(forall ((%s (_ FloatingPoint 11 53))) %s)", vn, body), S: SBool}
	case "toreal":
		return &Val{T: tApp("to_real", arg(0).T), S: SReal}
	case "dyntype":
		c.decls.declFun("dyntype", []Sort{SInt}, SInt)
		return &Val{T: tApp("dyntype", arg(0).T), S: SInt}
	case "allocated":
		// allocated(r): r is a reference that exists now (nil counts as allocated)
		r := arg(0).T
		if env.st != nil && env.st.alloc != "" {
			return &Val{T: tAnd(tApp("<=", "0", r), tApp("<=", r, env.st.alloc)), S: SBool}
		}
		return &Val{T: "true", S: SBool}
	case "fresh":
		// fresh(r): r was allocated by this call (not allocated before)
		c.decls.declFun("allocated0", []Sort{SInt}, SBool)
		r := arg(0).T
		t := tAnd(tApp(">", r, "0"), tNot(tApp("allocated0", r)))
		if env.calleePost {
			// allocated by the callee just now: distinct from everything this function allocated before
			for _, o := range c.refs {
				if o != r {
					t = tAnd(t, tNot(tEq(r, o)))
				}
			}
			c.refs = append(c.refs, r)
			// and beyond the allocation frontier of the state in which the call was made
			if env.old != nil && env.old.st != nil && env.old.st.alloc != "" && env.st != nil && env.st.alloc != "" && env.old.st.alloc != env.st.alloc {
				t = tAnd(t, tApp(">", r, env.old.st.alloc), tApp("<=", r, env.st.alloc))
			}
		}
		return &Val{T: t, S: SBool}
	}
	if gf, ok := c.V.specs.Ghosts[name]; ok {
		var args []*Val
		for i := range x.Args {
			args = append(args, arg(i))
		}
		if gf.Macro && len(args) == len(gf.Params) {
			e2 := *env
			e2.alias = map[string]string{}
			for i, p := range gf.Params {
				if id, ok := x.Args[i].(*ast.Ident); ok {
					e2.alias[p] = env.realName(id.Name)
				}
			}
			if env.old != nil && env.old != env {
				o := *env.old
				o.alias = e2.alias
				if o.old == env.old {
					o.old = &o
				}
				e2.old = &o
			} else if env.old == env {
				e2.old = &e2
			}
			return c.ghostCall(&e2, gf, args)
		}
		return c.ghostCall(env, gf, args)
	}
	c.specErr("contract does not resolve: spec function %s", name)
	return &Val{T: c.fresh("specbad", SBool), S: SBool}
}

// ghostCall: uninterpreted ghost functions are declared; defined ones are emitted as define-fun (non-recursive)
// or declared + axiomatised by their definition (recursive ones must be written as axioms by the user).
func (c *FnCtx) ghostCall(env *SpecEnv, gf *GhostFunc, args []*Val) *Val {
	if len(args) != len(gf.Params) {
		c.specErr("ghost function %s: wrong number of arguments", gf.Name)
		return &Val{T: c.fresh("specbad", gf.Ret), S: gf.Ret}
	}
	if gf.Macro {
		e2 := env
		for i, p := range gf.Params {
			e2 = e2.withBound(p, args[i])
		}
		return c.specEval(e2, gf.Body)
	}
	c.declGhost(gf)
	ts := make([]string, len(args))
	for i, a := range args {
		ts[i] = c.coerce(a, gf.PSorts[i]).T
		if a.S != gf.PSorts[i] && !(a.S == SInt && gf.PSorts[i] == SReal) {
			c.specErr("ghost function %s: argument %d has sort %s, want %s", gf.Name, i+1, a.S, gf.PSorts[i])
		}
	}
	return &Val{T: tApp("gf_"+gf.Name, ts...), S: gf.Ret}
}

func (c *FnCtx) declGhost(gf *GhostFunc) {
	name := "gf_" + gf.Name
	if _, ok := c.decls.funs[name]; ok {
		return
	}
	for _, s := range gf.PSorts {
		if s == SStr || isSeq(s) {
			c.declSeq(s)
		}
	}
	if gf.Ret == SStr || isSeq(gf.Ret) {
		c.declSeq(gf.Ret)
	}
	if gf.Body == nil {
		c.decls.declFun(name, gf.PSorts, gf.Ret)
		return
	}
	// reserve the name first (so recursive references resolve to a declared function)
	c.decls.declFun(name, gf.PSorts, gf.Ret)
	bound := map[string]*Val{}
	var ps []string
	var qs []string
	for i, p := range gf.Params {
		vn := "p!" + p
		bound[p] = &Val{T: vn, S: gf.PSorts[i]}
		ps = append(ps, vn)
		qs = append(qs, fmt.Sprintf("(%s %s)", vn, gf.PSorts[i]))
	}
	env := &SpecEnv{c: c, st: c.pre, lookup: func(string) *Val { return nil }, bound: bound}
	env.old = env
	body := c.specEval(env, gf.Body)
	app := tApp(name, ps...)
	def := tEq(app, body.T)
	if len(ps) > 0 {
		def = fmt.Sprintf("(forall (%s) (! %s :pattern (%s)))", strings.Join(qs, " "), def, app)
	}
	c.ghostDefs = append(c.ghostDefs, def)
}
