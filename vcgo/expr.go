package main

// Symbolic evaluation of Go expressions over the typed AST.

import (
	"fmt"
	"go/ast"
	"go/constant"
	"go/token"
	"go/types"
	"math/big"
	"strings"
)

func (c *FnCtx) typeOf(e ast.Expr) types.Type {
	if tv, ok := c.info.Types[e]; ok {
		return tv.Type
	}
	if id, ok := e.(*ast.Ident); ok {
		if o := c.info.ObjectOf(id); o != nil {
			return o.Type()
		}
	}
	return nil
}

func (c *FnCtx) constVal(cv constant.Value, t types.Type) *Val {
	s := c.sortOf(t)
	switch cv.Kind() {
	case constant.Bool:
		if constant.BoolVal(cv) {
			return &Val{T: "true", S: SBool, Typ: t}
		}
		return &Val{T: "false", S: SBool, Typ: t}
	case constant.String:
		return &Val{T: c.strLit(constant.StringVal(cv)), S: SStr, Typ: t}
	case constant.Int:
		if s == SReal {
			return &Val{T: ratTerm(cv), S: SReal, Typ: t}
		}
		if strings.HasPrefix(string(s), "(_ FloatingPoint") {
			return &Val{T: fpConst(cv, s), S: s, Typ: t}
		}
		bi, ok := new(big.Int).SetString(cv.ExactString(), 10)
		if !ok {
			return &Val{T: c.fresh("bigconst", SInt), S: SInt, Typ: t}
		}
		if bi.Sign() < 0 {
			return &Val{T: "(- " + new(big.Int).Neg(bi).String() + ")", S: SInt, Typ: t}
		}
		return &Val{T: bi.String(), S: SInt, Typ: t}
	case constant.Float:
		if strings.HasPrefix(string(s), "(_ FloatingPoint") {
			return &Val{T: fpConst(cv, s), S: s, Typ: t}
		}
		return &Val{T: ratTerm(cv), S: SReal, Typ: t}
	}
	return &Val{T: c.fresh("const", s), S: s, Typ: t}
}

func ratTerm(cv constant.Value) string {
	r, ok := new(big.Rat).SetString(constant.ToFloat(cv).ExactString())
	if !ok {
		return "0.0"
	}
	neg := r.Sign() < 0
	if neg {
		r.Neg(r)
	}
	t := ""
	if r.IsInt() {
		t = r.Num().String() + ".0"
	} else {
		t = "(/ " + r.Num().String() + ".0 " + r.Denom().String() + ".0)"
	}
	if neg {
		t = "(- " + t + ")"
	}
	return t
}

func fpConst(cv constant.Value, s Sort) string {
	f, _ := constant.Float64Val(constant.ToFloat(cv))
	return fpLit(f, s)
}

// eval evaluates an expression; may extend st (calls).
func (c *FnCtx) eval(st *State, e ast.Expr) *Val {
	if tv, ok := c.info.Types[e]; ok && tv.Value != nil {
		return c.constVal(tv.Value, tv.Type)
	}
	switch x := e.(type) {
	case *ast.ParenExpr:
		return c.eval(st, x.X)
	case *ast.Ident:
		return c.evalIdent(st, x)
	case *ast.BasicLit:
		// non-constant basic literals do not exist; fallthrough to havoc
	case *ast.FuncLit:
		return &Val{S: SInt, T: c.fresh("fn", SInt), Typ: c.typeOf(e), Fn: x}
	case *ast.BinaryExpr:
		return c.evalBinary(st, x)
	case *ast.UnaryExpr:
		return c.evalUnary(st, x)
	case *ast.StarExpr:
		p := c.eval(st, x.X)
		return c.deref(st, p, c.typeOf(e), x)
	case *ast.SelectorExpr:
		return c.evalSelector(st, x)
	case *ast.IndexExpr:
		return c.evalIndex(st, x)
	case *ast.SliceExpr:
		return c.evalSlice(st, x)
	case *ast.CallExpr:
		vs := c.evalCall(st, x)
		if len(vs) == 0 {
			return &Val{T: "0", S: SInt}
		}
		return vs[0]
	case *ast.CompositeLit:
		return c.evalComposite(st, x, false)
	case *ast.TypeAssertExpr:
		v := c.eval(st, x.X)
		t := c.typeOf(e)
		if c.nopanic {
			c.warn("type assertion without comma-ok at %s treated as non-panicking only if asserted type matches (not checked)", c.pos(e))
		}
		return c.typeAssert(st, v, t)
	case *ast.KeyValueExpr:
		return c.eval(st, x.Value)
	}
	t := c.typeOf(e)
	c.warn("unsupported expression %T at %s: havoc", e, c.pos(e))
	return c.havocVal(st, t, "unsup")
}

func (c *FnCtx) typeAssert(st *State, v *Val, t types.Type) *Val {
	s := c.sortOf(t)
	if s == SInt {
		// reference-like: same reference, new static type
		return &Val{T: v.T, S: SInt, Typ: t}
	}
	if s == SNone {
		return c.havocVal(st, t, "unbox")
	}
	// unboxing a scalar from an interface: uninterpreted projection
	fn := "unbox_" + sortName(s)
	c.decls.declFun(fn, []Sort{SInt}, s)
	if s == SNone {
		return c.havocVal(st, t, "unbox")
	}
	return &Val{T: tApp(fn, v.T), S: s, Typ: t}
}

func (c *FnCtx) evalIdent(st *State, id *ast.Ident) *Val {
	switch id.Name {
	case "nil":
		if _, ok := c.info.Uses[id].(*types.Nil); ok {
			t := c.typeOf(id)
			if t != nil {
				s := c.sortOf(t)
				if s == SStr || isSeq(s) {
					return c.zeroVal(t)
				}
			}
			return &Val{T: "0", S: SInt, Typ: t}
		}
	case "_":
		return &Val{T: "0", S: SInt}
	}
	obj := c.info.ObjectOf(id)
	switch o := obj.(type) {
	case *types.Var:
		if v, ok := st.vars[o]; ok {
			return v
		}
		if o.Pkg() != nil && o.Parent() == o.Pkg().Scope() {
			return c.globalVar(st, o)
		}
		// unknown local (e.g. captured variable of an un-inlined closure)
		v := c.havocVal(st, o.Type(), o.Name())
		st.vars[o] = v
		return v
	case *types.Func:
		return &Val{T: c.globalFuncRef(o), S: SInt, Typ: o.Type(), FnObj: o}
	case *types.Const:
		return c.constVal(o.Val(), o.Type())
	case *types.Nil:
		return &Val{T: "0", S: SInt}
	}
	c.warn("unresolved identifier %s at %s: havoc", id.Name, c.pos(id))
	return c.havocVal(st, c.typeOf(id), id.Name)
}

func (c *FnCtx) globalFuncRef(o *types.Func) string {
	n := "F_" + sanitizeSym(typesFuncKey(o))
	c.decls.declFun(n, nil, SInt)
	return n
}

// globalVar: package-level variables are modelled as immutable constants (assumption listed).
func (c *FnCtx) globalVar(st *State, o *types.Var) *Val {
	s := c.sortOf(o.Type())
	name := "G_" + sanitizeSym(o.Pkg().Name()+"."+o.Name())
	c.assumeNote("package-level variables are read as immutable constants (" + o.Pkg().Name() + "." + o.Name() + ")")
	if s == SNone {
		v := &Val{S: SNone, Typ: o.Type(), Fields: map[string]*Val{}}
		if stt, _ := structOf(o.Type()); stt != nil {
			for i := 0; i < stt.NumFields(); i++ {
				f := stt.Field(i)
				fs := c.sortOf(f.Type())
				if fs == SNone {
					continue
				}
				fn := name + "." + f.Name()
				c.decls.declFun(fn, nil, fs)
				v.Fields[f.Name()] = &Val{T: fn, S: fs, Typ: f.Type()}
			}
		}
		return v
	}
	c.decls.declFun(name, nil, s)
	v := &Val{T: name, S: s, Typ: o.Type()}
	if types.Identical(o.Type(), types.Universe.Lookup("error").Type()) {
		// error sentinels: non-nil and pairwise distinct
		c.errGlobals[name] = true
	}
	return v
}

func (c *FnCtx) deref(st *State, p *Val, t types.Type, at ast.Node) *Val {
	if c.nopanic {
		c.oblig(st, "nil", "nil dereference", at, tNot(tEq(p.T, "0")), "")
	}
	s := c.sortOf(t)
	if s == SNone {
		return &Val{S: SNone, Typ: t, Box: p.T, T: typeShortName(t)}
	}
	key := c.ptrKey(t)
	h := c.heapGet(st, key, s)
	return &Val{T: tApp("select", h, p.T), S: s, Typ: t}
}

func (c *FnCtx) evalSelector(st *State, x *ast.SelectorExpr) *Val {
	// package-qualified identifier
	if id, ok := x.X.(*ast.Ident); ok {
		if _, isPkg := c.info.Uses[id].(*types.PkgName); isPkg {
			obj := c.info.Uses[x.Sel]
			switch o := obj.(type) {
			case *types.Var:
				return c.globalVar(st, o)
			case *types.Func:
				return &Val{T: c.globalFuncRef(o), S: SInt, Typ: o.Type(), FnObj: o}
			case *types.Const:
				return c.constVal(o.Val(), o.Type())
			}
			return c.havocVal(st, c.typeOf(x), "pkgsel")
		}
	}
	sel := c.info.Selections[x]
	if sel == nil {
		c.warn("unresolved selector at %s", c.pos(x))
		return c.havocVal(st, c.typeOf(x), "sel")
	}
	switch sel.Kind() {
	case types.FieldVal:
		base := c.eval(st, x.X)
		return c.selectPath(st, base, sel, x)
	case types.MethodVal:
		recv := c.eval(st, x.X)
		f, _ := sel.Obj().(*types.Func)
		return &Val{T: c.fresh("mval", SInt), S: SInt, Typ: c.typeOf(x), FnObj: f, Recv: recv}
	}
	return c.havocVal(st, c.typeOf(x), "sel")
}

// selectPath follows a (possibly embedded) field selection.
func (c *FnCtx) selectPath(st *State, base *Val, sel *types.Selection, at ast.Node) *Val {
	cur := base
	t := sel.Recv()
	idx := sel.Index()
	for _, i := range idx {
		stt, named := structOf(t)
		if stt == nil {
			c.warn("field selection on non-struct at %s", c.pos(at))
			return c.havocVal(st, sel.Type(), "selbad")
		}
		f := stt.Field(i)
		cur = c.fieldOf(st, cur, t, named, f, at)
		t = f.Type()
	}
	return cur
}

func (c *FnCtx) fieldOf(st *State, base *Val, bt types.Type, named *types.Named, f *types.Var, at ast.Node) *Val {
	if _, isPtr := bt.Underlying().(*types.Pointer); isPtr {
		if c.nopanic {
			c.oblig(st, "nil", "nil dereference ."+f.Name(), at, tNot(tEq(base.T, "0")), "")
		}
		owner := typeShortName(bt)
		return c.loadField(st, base.T, owner, f.Name(), f.Type())
	}
	return c.fieldOfVal(st, base, f.Name(), f.Type())
}

func (c *FnCtx) evalIndex(st *State, x *ast.IndexExpr) *Val {
	bt := c.typeOf(x.X)
	if bt == nil {
		return c.havocVal(st, c.typeOf(x), "idx")
	}
	// generic function instantiation f[T]
	if _, ok := bt.Underlying().(*types.Signature); ok {
		return c.eval(st, x.X)
	}
	base := c.eval(st, x.X)
	if p, ok := bt.Underlying().(*types.Pointer); ok { // pointer to array
		bt = p.Elem()
	}
	switch u := bt.Underlying().(type) {
	case *types.Map:
		k := c.eval(st, x.Index)
		v, _ := c.mapLoad(st, base, u, k)
		return v
	case *types.Basic, *types.Slice, *types.Array:
		i := c.eval(st, x.Index)
		if base.S != SStr && !isSeq(base.S) {
			return c.havocVal(st, c.typeOf(x), "idx")
		}
		if c.nopanic {
			c.oblig(st, "index", "index in range", x, tAnd(tApp("<=", "0", i.T), tApp("<", i.T, c.seqLen(base))), "")
		}
		et := c.typeOf(x)
		r := &Val{T: c.seqAt(base, i.T), S: elemSort(base.S), Typ: et}
		if c.sortOf(et) == SNone {
			// slice of structs: element is a ref to a pseudo-object
			r.S = SNone
			r.Box = r.T
			r.T = typeShortName(et)
		}
		return r
	}
	return c.havocVal(st, c.typeOf(x), "idx")
}

func (c *FnCtx) mapKeys(u *types.Map) (Sort, Sort, string) {
	ks := c.sortOf(u.Key())
	vs := c.sortOf(u.Elem())
	if ks == SNone {
		ks = SInt
	}
	if vs == SNone {
		vs = SInt
	}
	return ks, vs, "map." + sortName(ks) + "." + sortName(vs)
}

func (c *FnCtx) mapLoad(st *State, m *Val, u *types.Map, k *Val) (*Val, string) {
	ks, vs, key := c.mapKeys(u)
	hv := c.heapGetS(st, key+".val", arrSort(SInt, arrSort(ks, vs)))
	hd := c.heapGetS(st, key+".dom", arrSort(SInt, arrSort(ks, SBool)))
	present := tApp("select", tApp("select", hd, m.T), k.T)
	zero := c.zeroVal(u.Elem())
	if zero.S == SNone {
		return c.havocVal(st, u.Elem(), "mapelem"), present
	}
	val := tIte(present, tApp("select", tApp("select", hv, m.T), k.T), zero.T)
	return &Val{T: val, S: vs, Typ: u.Elem()}, present
}

func (c *FnCtx) heapGetS(st *State, key string, full Sort) string {
	if t, ok := st.heap[key]; ok {
		return t
	}
	name := "H_" + sanitizeSym(key)
	c.decls.declFun(name, nil, full)
	st.heap[key] = name
	if c.pre != nil {
		if _, ok := c.pre.heap[key]; !ok {
			c.pre.heap[key] = name
		}
	}
	return name
}

func (c *FnCtx) mapStore(st *State, m *Val, u *types.Map, k, v *Val) {
	ks, vs, key := c.mapKeys(u)
	hv := c.heapGetS(st, key+".val", arrSort(SInt, arrSort(ks, vs)))
	hd := c.heapGetS(st, key+".dom", arrSort(SInt, arrSort(ks, SBool)))
	if c.nopanic {
		c.oblig(st, "nilmap", "assignment to entry in nil map", nil, tNot(tEq(m.T, "0")), "")
	}
	if vs == SInt && v.S != SInt && v.S != SNone {
		v = c.box(v)
	}
	vt := v.T
	if v.S == SNone {
		vt = c.fresh("mapstructval", SInt)
	}
	st.heap[key+".val"] = tApp("store", hv, m.T, tApp("store", tApp("select", hv, m.T), k.T, vt))
	st.heap[key+".dom"] = tApp("store", hd, m.T, tApp("store", tApp("select", hd, m.T), k.T, "true"))
}

func (c *FnCtx) evalSlice(st *State, x *ast.SliceExpr) *Val {
	base := c.eval(st, x.X)
	t := c.typeOf(x)
	if base.S != SStr && !isSeq(base.S) {
		return c.havocVal(st, t, "slice")
	}
	lo := "0"
	hi := c.seqLen(base)
	if x.Low != nil {
		lo = c.eval(st, x.Low).T
	}
	if x.High != nil {
		hi = c.eval(st, x.High).T
	}
	if c.nopanic {
		// for slices the upper bound is cap, not len; we use len (stricter) unless base is a slice type, where
		// reslicing up to cap is legal: we do not model cap, so we only check lo<=hi and 0<=lo, and hi<=len for strings.
		g := tAnd(tApp("<=", "0", lo), tApp("<=", lo, hi))
		if bt := c.typeOf(x.X); bt != nil {
			if _, isSlice := bt.Underlying().(*types.Slice); !isSlice {
				g = tAnd(g, tApp("<=", hi, c.seqLen(base)))
			} else {
				g = tAnd(g, tApp("<=", hi, c.seqLen(base)))
				c.assumeNote("slice expressions are checked against len, not cap (stricter than Go)")
			}
		}
		c.oblig(st, "slice", "slice bounds in range", x, g, "")
	}
	return &Val{T: c.seqSub(base, lo, hi), S: base.S, Typ: t}
}

func (c *FnCtx) evalUnary(st *State, x *ast.UnaryExpr) *Val {
	switch x.Op {
	case token.NOT:
		v := c.eval(st, x.X)
		return &Val{T: tNot(v.T), S: SBool, Typ: v.Typ}
	case token.SUB:
		v := c.eval(st, x.X)
		if v.S == SReal {
			return &Val{T: tApp("-", v.T), S: SReal, Typ: v.Typ}
		}
		if strings.HasPrefix(string(v.S), "(_ FloatingPoint") {
			return &Val{T: tApp("fp.neg", v.T), S: v.S, Typ: v.Typ}
		}
		return c.wrapInt(&Val{T: tApp("-", v.T), S: SInt, Typ: v.Typ})
	case token.ADD:
		return c.eval(st, x.X)
	case token.AND:
		return c.addrOf(st, x.X)
	case token.ARROW:
		c.warn("channel receive at %s: havoc", c.pos(x))
		return c.havocVal(st, c.typeOf(x), "recv")
	case token.XOR:
		v := c.eval(st, x.X)
		return c.havocVal(st, v.Typ, "bitnot")
	}
	return c.havocVal(st, c.typeOf(x), "unary")
}

// addrOf: &x
func (c *FnCtx) addrOf(st *State, e ast.Expr) *Val {
	pt := types.NewPointer(c.typeOf(e))
	switch x := e.(type) {
	case *ast.CompositeLit:
		return c.evalComposite(st, x, true)
	case *ast.ParenExpr:
		return c.addrOf(st, x.X)
	case *ast.Ident:
		obj, _ := c.info.ObjectOf(x).(*types.Var)
		if obj == nil {
			break
		}
		cur := c.evalIdent(st, x)
		if cur.S == SNone {
			if cur.Box != "" {
				return &Val{T: cur.Box, S: SInt, Typ: pt}
			}
			// box the struct local
			ref := c.newRef(st, "box_"+x.Name)
			owner := typeShortName(obj.Type())
			c.storeStruct(st, ref, owner, "", obj.Type(), cur)
			st.vars[obj] = &Val{S: SNone, Typ: obj.Type(), Box: ref, T: owner}
			return &Val{T: ref, S: SInt, Typ: pt}
		}
		// scalar local: box through ptr.<sort> heap; the variable itself stays a value (writes through the
		// pointer are not reflected) – flag it
		ref := c.newRef(st, "addr_"+x.Name)
		key := "ptr." + sortName(cur.S)
		h := c.heapGet(st, key, cur.S)
		st.heap[key] = tApp("store", h, ref, cur.T)
		c.boxedScalars[obj] = ref
		return &Val{T: ref, S: SInt, Typ: pt}
	case *ast.SelectorExpr:
		// &p.f : address of a field — model as an opaque ref determined by (p, field)
		if sel := c.info.Selections[x]; sel != nil && sel.Kind() == types.FieldVal {
			base := c.eval(st, x.X)
			ft := c.typeOf(x)
			if c.sortOf(ft) == SNone && base.S == SInt {
				// pointer to an embedded struct field: treat field struct as living at a derived ref
				fn := "fieldaddr_" + sanitizeSym(typeShortName(c.typeOf(x.X))+"."+x.Sel.Name)
				c.decls.declFun(fn, []Sort{SInt}, SInt)
				c.assumeNote("address of a by-value struct field is an opaque reference (contents not linked to the enclosing object)")
				return &Val{T: tApp(fn, base.T), S: SInt, Typ: pt}
			}
		}
	case *ast.IndexExpr:
	}
	c.warn("address-of %T at %s: opaque reference", e, c.pos(e))
	return c.havocVal(st, pt, "addr")
}

func (c *FnCtx) storeStruct(st *State, ref, owner, path string, t types.Type, v *Val) {
	stt, _ := structOf(t)
	if stt == nil {
		return
	}
	for i := 0; i < stt.NumFields(); i++ {
		f := stt.Field(i)
		fv := c.fieldOfVal(st, v, f.Name(), f.Type())
		p := f.Name()
		if path != "" {
			p = path + "." + f.Name()
		}
		if c.sortOf(f.Type()) == SNone {
			c.storeStruct(st, ref, owner, p, f.Type(), fv)
			continue
		}
		c.storeField(st, ref, owner, p, f.Type(), fv)
	}
}

// bumpAlloc: somebody else (a callee, another iteration) may have allocated: the frontier only grows
func (c *FnCtx) bumpAlloc(st *State) {
	if st.alloc == "" {
		return
	}
	a := c.fresh("alloc", SInt)
	st.assume(tApp(">=", a, st.alloc))
	st.alloc = a
}

func (c *FnCtx) newRef(st *State, hint string) string {
	r := c.fresh(sanitizeSym(hint), SInt)
	st.assume(tApp(">", r, "0"))
	if st.alloc != "" {
		st.assume(tApp(">", r, st.alloc))
		st.alloc = r
	}
	st.assume(tNot(tApp("allocated0", r)))
	c.decls.declFun("allocated0", []Sort{SInt}, SBool)
	for _, o := range c.refs {
		st.assume(tNot(tEq(r, o)))
	}
	c.refs = append(c.refs, r)
	return r
}

func (c *FnCtx) evalComposite(st *State, x *ast.CompositeLit, addr bool) *Val {
	t := c.typeOf(x)
	if t == nil {
		return c.havocVal(st, nil, "lit")
	}
	switch u := t.Underlying().(type) {
	case *types.Struct:
		v := c.zeroVal(t)
		for i, el := range x.Elts {
			if kv, ok := el.(*ast.KeyValueExpr); ok {
				name := kv.Key.(*ast.Ident).Name
				v.Fields[name] = c.copyVal(st, c.eval(st, kv.Value))
			} else if i < u.NumFields() {
				v.Fields[u.Field(i).Name()] = c.copyVal(st, c.eval(st, el))
			}
		}
		if addr {
			ref := c.newRef(st, "new_"+sanitizeSym(typeShortName(t)))
			c.storeStruct(st, ref, typeShortName(t), "", t, v)
			return &Val{T: ref, S: SInt, Typ: types.NewPointer(t)}
		}
		return v
	case *types.Slice, *types.Array:
		s := c.sortOf(t)
		if s != SStr && !isSeq(s) {
			return c.havocVal(st, t, "lit")
		}
		c.declSeq(s)
		seq := c.fresh("lit_"+sortName(s), s)
		n := 0
		keyed := false
		for _, el := range x.Elts {
			if _, ok := el.(*ast.KeyValueExpr); ok {
				keyed = true
				continue
			}
			ev := c.eval(st, el)
			if ev.S == SNone {
				ev = c.structToRef(st, ev)
			}
			st.assume(tEq(tApp("at_"+sortName(s), seq, tInt(int64(n))), c.coerce(ev, elemSort(s)).T))
			n++
		}
		if a, ok := u.(*types.Array); ok {
			st.assume(tEq(tApp("len_"+sortName(s), seq), tInt(a.Len())))
		} else if !keyed {
			st.assume(tEq(tApp("len_"+sortName(s), seq), tInt(int64(n))))
		}
		return &Val{T: seq, S: s, Typ: t}
	case *types.Map:
		ref := c.newRef(st, "newmap")
		ks, _, key := c.mapKeys(u)
		hd := c.heapGetS(st, key+".dom", arrSort(SInt, arrSort(ks, SBool)))
		st.heap[key+".dom"] = tApp("store", hd, ref, fmt.Sprintf("((as const %s) false)", arrSort(ks, SBool)))
		m := &Val{T: ref, S: SInt, Typ: t}
		for _, el := range x.Elts {
			if kv, ok := el.(*ast.KeyValueExpr); ok {
				c.mapStore(st, m, u, c.eval(st, kv.Key), c.eval(st, kv.Value))
			}
		}
		return m
	case *types.Pointer:
		return c.havocVal(st, t, "lit")
	}
	return c.havocVal(st, t, "lit")
}

// structToRef stores a struct value into a fresh pseudo-object and returns its ref (slice-of-struct elements).
func (c *FnCtx) structToRef(st *State, v *Val) *Val {
	if v.Box != "" {
		return &Val{T: v.Box, S: SInt, Typ: v.Typ}
	}
	ref := c.newRef(st, "elem")
	c.storeStruct(st, ref, typeShortName(v.Typ), "", v.Typ, v)
	return &Val{T: ref, S: SInt, Typ: v.Typ}
}

// copyVal copies struct values (value semantics)
func (c *FnCtx) copyVal(st *State, v *Val) *Val {
	if v.S != SNone {
		return v
	}
	stt, _ := structOf(v.Typ)
	if stt == nil {
		return v
	}
	out := &Val{S: SNone, Typ: v.Typ, Fields: map[string]*Val{}}
	for i := 0; i < stt.NumFields(); i++ {
		f := stt.Field(i)
		out.Fields[f.Name()] = c.copyVal(st, c.fieldOfVal(st, v, f.Name(), f.Type()))
	}
	return out
}

func (c *FnCtx) wrapInt(v *Val) *Val {
	if v.Typ == nil || v.S != SInt {
		return v
	}
	b, ok := v.Typ.Underlying().(*types.Basic)
	if !ok {
		return v
	}
	switch b.Kind() {
	case types.Uint8:
		return &Val{T: tApp("mod", v.T, "256"), S: SInt, Typ: v.Typ}
	case types.Uint16:
		return &Val{T: tApp("mod", v.T, "65536"), S: SInt, Typ: v.Typ}
	case types.Uint32:
		return &Val{T: tApp("mod", v.T, "4294967296"), S: SInt, Typ: v.Typ}
	case types.Uint64, types.Uint, types.Uintptr:
		return &Val{T: tApp("mod", v.T, "18446744073709551616"), S: SInt, Typ: v.Typ}
	}
	if c.overflow {
		// signed: overflow is an obligation in nopanic/overflow mode – not a panic in Go, so only noted
	}
	return v
}

func (c *FnCtx) evalBinary(st *State, x *ast.BinaryExpr) *Val {
	t := c.typeOf(x)
	switch x.Op {
	case token.LAND:
		a := c.eval(st, x.X)
		// short circuit: evaluate RHS under assumption a (side obligations guarded)
		st2 := st.clone()
		st2.assume(a.T)
		base := len(st2.pc)
		b := c.eval(st2, x.Y)
		c.adoptSide(st, st2, a.T, base)
		return &Val{T: tAnd(a.T, b.T), S: SBool, Typ: t}
	case token.LOR:
		a := c.eval(st, x.X)
		st2 := st.clone()
		st2.assume(tNot(a.T))
		base := len(st2.pc)
		b := c.eval(st2, x.Y)
		c.adoptSide(st, st2, tNot(a.T), base)
		return &Val{T: tOr(a.T, b.T), S: SBool, Typ: t}
	}
	a := c.eval(st, x.X)
	b := c.eval(st, x.Y)
	return c.binop(st, x.Op, a, b, t, x)
}

// adoptSide merges side effects of a short-circuit evaluation back: heap/ghost changes under cond,
// and assumptions made in the sub-state (callee postconditions) as implications.
func (c *FnCtx) adoptSide(st, sub *State, cond string, base int) {
	for _, p := range sub.pc[base:] {
		st.assume(tImp(cond, p))
	}
	for k, v := range sub.heap {
		if old, ok := st.heap[k]; !ok {
			st.heap[k] = v
		} else if old != v {
			st.heap[k] = tIte(cond, v, old)
		}
	}
	for k, v := range sub.ghost {
		if old := st.ghost[k]; old != v {
			st.ghost[k] = tIte(cond, v, old)
		}
	}
	for k, v := range sub.vars {
		if old, ok := st.vars[k]; !ok {
			st.vars[k] = v
		} else if old != v && old.S != SNone && v.S == old.S {
			st.vars[k] = &Val{T: tIte(cond, v.T, old.T), S: old.S, Typ: old.Typ}
		}
	}
}

func isFP(s Sort) bool { return strings.HasPrefix(string(s), "(_ FloatingPoint") }

func (c *FnCtx) binop(st *State, op token.Token, a, b *Val, t types.Type, at ast.Node) *Val {
	// comparisons
	switch op {
	case token.EQL, token.NEQ:
		var eq string
		switch {
		case a.S == SNone || b.S == SNone:
			eq = c.fresh("structeq", SBool)
		case isFP(a.S):
			eq = tApp("fp.eq", a.T, b.T)
		case a.S == SReal || b.S == SReal:
			eq = tEq(c.coerce(a, SReal).T, c.coerce(b, SReal).T)
		case a.S == SStr && st != nil && st.litOf(a.T) != "" && st.litOf(b.T) != "":
			if st.litOf(a.T) == st.litOf(b.T) {
				eq = "true"
			} else {
				eq = "false"
			}
		case a.S == SStr && st != nil && isLitName(b.T) && st.knownDifferent(a.T, b.T):
			eq = "false"
		case a.S == SStr && st != nil && isLitName(a.T) && st.knownDifferent(b.T, a.T):
			eq = "false"
		default:
			eq = tEq(a.T, b.T)
		}
		if op == token.NEQ {
			eq = tNot(eq)
		}
		return &Val{T: eq, S: SBool, Typ: t}
	case token.LSS, token.LEQ, token.GTR, token.GEQ:
		ops := map[token.Token]string{token.LSS: "<", token.LEQ: "<=", token.GTR: ">", token.GEQ: ">="}[op]
		if a.S == SStr {
			c.needStrOrder = true
			var r string
			switch op {
			case token.LSS:
				r = tApp("slt", a.T, b.T)
			case token.LEQ:
				r = tNot(tApp("slt", b.T, a.T))
			case token.GTR:
				r = tApp("slt", b.T, a.T)
			case token.GEQ:
				r = tNot(tApp("slt", a.T, b.T))
			}
			return &Val{T: r, S: SBool, Typ: t}
		}
		if isFP(a.S) {
			f := map[token.Token]string{token.LSS: "fp.lt", token.LEQ: "fp.leq", token.GTR: "fp.gt", token.GEQ: "fp.geq"}[op]
			return &Val{T: tApp(f, a.T, b.T), S: SBool, Typ: t}
		}
		if a.S == SReal || b.S == SReal {
			return &Val{T: tApp(ops, c.coerce(a, SReal).T, c.coerce(b, SReal).T), S: SBool, Typ: t}
		}
		return &Val{T: tApp(ops, a.T, b.T), S: SBool, Typ: t}
	}
	if a.S == SStr && op == token.ADD {
		c.declSeq(SStr)
		return &Val{T: tApp("cat_Str", a.T, b.T), S: SStr, Typ: t}
	}
	if isFP(a.S) {
		f := map[token.Token]string{token.ADD: "fp.add", token.SUB: "fp.sub", token.MUL: "fp.mul", token.QUO: "fp.div"}[op]
		if f == "" {
			return c.havocVal(st, t, "fpop")
		}
		return &Val{T: tApp(f, "RNE", a.T, b.T), S: a.S, Typ: t}
	}
	if a.S == SReal || b.S == SReal {
		ar, br := c.coerce(a, SReal).T, c.coerce(b, SReal).T
		switch op {
		case token.ADD:
			return &Val{T: tApp("+", ar, br), S: SReal, Typ: t}
		case token.SUB:
			return &Val{T: tApp("-", ar, br), S: SReal, Typ: t}
		case token.MUL:
			return &Val{T: tApp("*", ar, br), S: SReal, Typ: t}
		case token.QUO:
			return &Val{T: tApp("/", ar, br), S: SReal, Typ: t}
		}
		return c.havocVal(st, t, "realop")
	}
	if a.S == SBool {
		switch op {
		case token.AND:
			return &Val{T: tAnd(a.T, b.T), S: SBool, Typ: t}
		case token.OR:
			return &Val{T: tOr(a.T, b.T), S: SBool, Typ: t}
		}
	}
	// integers
	var r string
	switch op {
	case token.ADD:
		r = tApp("+", a.T, b.T)
	case token.SUB:
		r = tApp("-", a.T, b.T)
	case token.MUL:
		r = tApp("*", a.T, b.T)
	case token.QUO:
		if c.nopanic {
			c.oblig(st, "div", "division by zero", at, tNot(tEq(b.T, "0")), "")
		}
		// Go truncates toward zero
		r = fmt.Sprintf("(ite (>= %s 0) (div %s %s) (- (div (- %s) %s)))", a.T, a.T, b.T, a.T, b.T)
		if isNonNegTerm(a.T) {
			r = tApp("div", a.T, b.T)
		}
	case token.REM:
		if c.nopanic {
			c.oblig(st, "div", "division by zero", at, tNot(tEq(b.T, "0")), "")
		}
		r = fmt.Sprintf("(ite (>= %s 0) (mod %s %s) (- (mod (- %s) %s)))", a.T, a.T, b.T, a.T, b.T)
		if isNonNegTerm(a.T) {
			r = tApp("mod", a.T, b.T)
		}
	case token.SHL:
		if k, ok := smallConst(b.T); ok {
			r = tApp("*", a.T, pow2(k))
		}
	case token.SHR:
		if k, ok := smallConst(b.T); ok {
			r = tApp("div", a.T, pow2(k))
		}
	case token.AND:
		// x & (2^k-1)
		if k, ok := maskConst(b.T); ok {
			r = tApp("mod", a.T, pow2(k))
		} else if bi, ok := new(big.Int).SetString(b.T, 10); ok && bi.Sign() > 0 && new(big.Int).And(bi, new(big.Int).Sub(bi, big.NewInt(1))).Sign() == 0 {
			// x & 2^k: bit k of x (floor division, so also right for two's complement negatives)
			r = tApp("*", b.T, tApp("mod", tApp("div", a.T, b.T), "2"))
		}
	}
	if r == "" {
		fn := "bitop_" + sanitizeSym(op.String())
		names := map[token.Token]string{token.AND: "and", token.OR: "or", token.XOR: "xor", token.SHL: "shl", token.SHR: "shr", token.AND_NOT: "andnot"}
		if n, ok := names[op]; ok {
			fn = "bitop_" + n
		}
		c.decls.declFun(fn, []Sort{SInt, SInt}, SInt)
		c.assumeNote("bitwise operators on non-constant operands are uninterpreted functions")
		v := &Val{T: tApp(fn, a.T, b.T), S: SInt, Typ: t}
		return v
	}
	return c.wrapInt(&Val{T: r, S: SInt, Typ: t})
}

func isNonNegTerm(t string) bool {
	if len(t) > 0 && t[0] >= '0' && t[0] <= '9' {
		return true
	}
	return strings.HasPrefix(t, "(len_")
}

func smallConst(t string) (int, bool) {
	var k int
	if _, err := fmt.Sscanf(t, "%d", &k); err == nil && fmt.Sprint(k) == t && k >= 0 && k < 64 {
		return k, true
	}
	return 0, false
}
func maskConst(t string) (int, bool) {
	bi, ok := new(big.Int).SetString(t, 10)
	if !ok {
		return 0, false
	}
	bi.Add(bi, big.NewInt(1))
	if bi.Sign() > 0 && new(big.Int).And(bi, new(big.Int).Sub(bi, big.NewInt(1))).Sign() == 0 {
		return bi.BitLen() - 1, true
	}
	return 0, false
}
func pow2(k int) string { return new(big.Int).Lsh(big.NewInt(1), uint(k)).String() }
