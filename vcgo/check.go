package main

// `vcgo check <property>`: run the property's functions, compare with known findings, replay failures,
// write the evidence file, print VIOLATION / KNOWN-FINDING lines.

import (
	"encoding/json"
	"flag"
	"fmt"
	"os"
	"os/exec"
	"path/filepath"
	"regexp"
	"sort"
	"strconv"
	"strings"
	"time"
)

type PropConfig struct {
	Funcs     []string          `json:"funcs"`
	Bounded   []string          `json:"bounded,omitempty"` // descriptions of bounded stand-ins (never counted)
	Replay    map[string]string `json:"replay,omitempty"`  // obligation-name regexp -> replay family
	Trusted   []string          `json:"trusted,omitempty"`
	Timeout   int               `json:"timeout,omitempty"`
	Notes     []string          `json:"notes,omitempty"`
	Select    []string          `json:"select,omitempty"`  // only obligations whose stable name contains a match
	Exclude   []string          `json:"exclude,omitempty"` // obligations decided by another property's check
	NoPanic   []string          `json:"nopanic,omitempty"` // zero-annotation sweep: these functions get the nopanic obligations
	ExtraCmds []string          `json:"extra_cmds,omitempty"`
}

type KnownFinding struct {
	Status     string `json:"status"` // known | fixed
	Property   string `json:"property"`
	Obligation string `json:"obligation"` // stable obligation name (regexp allowed)
	What       string `json:"what"`
	Commit     string `json:"commit,omitempty"`
	Replay     string `json:"replay,omitempty"`
}

var reRet = regexp.MustCompile(`@ret\d+|@\d+`)

func stableName(n string) string { return reRet.ReplaceAllString(n, "") }

func cmdCheck(args []string) {
	fs := flag.NewFlagSet("check", flag.ExitOnError)
	repo := fs.String("repo", "/repo", "repository root")
	root := fs.String("verif", "/verif", "verif root")
	tier := fs.String("tier", os.Getenv("VERIF_TIER"), "quick|thorough")
	verbose := fs.Bool("v", false, "verbose")
	noEvidence := fs.Bool("no-evidence", false, "do not write the evidence file (self-test runs)")
	replayOut := fs.String("replay-out", "", "directory for replay files (default <verif>/replay/out/<id>)")
	fs.Parse(args)
	if fs.NArg() != 1 {
		fmt.Fprintln(os.Stderr, "usage: vcgo check [-tier quick|thorough] <property>")
		os.Exit(2)
	}
	id := fs.Arg(0)
	if *tier == "" {
		*tier = "quick"
	}
	seed, _ := strconv.Atoi(os.Getenv("VERIF_SEED"))
	t0 := time.Now()
	var props map[string]*PropConfig
	if err := readJSON(filepath.Join(*root, "props.json"), &props); err != nil {
		fmt.Fprintln(os.Stderr, "props.json:", err)
		os.Exit(2)
	}
	pc := props[id]
	if pc == nil {
		fmt.Fprintln(os.Stderr, "no such property in props.json:", id)
		os.Exit(2)
	}
	var known []KnownFinding
	readJSON(filepath.Join(*root, "known_findings.json"), &known)
	v, err := loadVerifier(*repo, filepath.Join(*root, "contracts", "extern"))
	if err != nil {
		fmt.Fprintln(os.Stderr, "ENGINE-FAULT load:", err)
		os.Exit(2)
	}
	for _, k := range pc.NoPanic {
		v.enableNoPanic(k)
		pc.Funcs = append(pc.Funcs, k)
	}
	queryDir, _ = os.MkdirTemp("", "vcgo-"+id+"-")
	defer os.RemoveAll(queryDir)
	timeout := 20
	if pc.Timeout > 0 {
		timeout = pc.Timeout
	}
	allSolvers := false
	if *tier == "thorough" {
		timeout *= 6
		allSolvers = true
	}
	// known findings of this property: short timeout for their obligations (they are expected to fail)
	var shortPats []string
	for _, k := range known {
		if k.Status == "known" && k.Property == id && *tier != "thorough" {
			shortPats = append(shortPats, "(?:"+k.Obligation+")")
		}
	}
	short := strings.Join(shortPats, "|")
	var recs []FuncRecord
	var local []string
	for _, k := range pc.Funcs {
		con := v.specs.Contracts[k]
		if con != nil && len(con.Splits) > 0 && len(con.Splits[0].Cases) >= 16 {
			rs, err := verifyShared(v, *repo, *root, k, *tier, timeout, allSolvers, short)
			if err != nil {
				fmt.Println("ENGINE-FAULT", err)
				os.Exit(2)
			}
			recs = append(recs, rs...)
			continue
		}
		local = append(local, k)
	}
	if len(local) > 3 && len(pc.NoPanic) == 0 || len(local) > 3 && os.Getenv("VCGO_INPROC") == "" {
		// several functions: verify them in parallel worker processes
		rs, err := verifyParallel(*repo, *root, local, pc.NoPanic, timeout, allSolvers, short)
		if err != nil {
			fmt.Println("ENGINE-FAULT", err)
			os.Exit(2)
		}
		recs = append(recs, rs...)
		local = nil
	}
	if len(local) > 0 {
		results := v.runFuncs(local)
		var qs []*Query
		for _, r := range results {
			for _, q := range r.Queries {
				if short != "" && matchOb(short, stableName(q.Name)) {
					q.Timeout = 4
				}
				qs = append(qs, q)
			}
		}
		runQueries(qs, timeout, allSolvers, 16)
		for _, r := range results {
			recs = append(recs, toRecord(r))
		}
	}
	// obligations selected for this property
	selected := func(name string) bool {
		sn := stableName(name)
		if len(pc.Select) > 0 {
			ok := false
			for _, p := range pc.Select {
				if matchOb(".*(?:"+p+").*", sn) {
					ok = true
				}
			}
			if !ok {
				return false
			}
		}
		for _, p := range pc.Exclude {
			if matchOb(".*(?:"+p+").*", sn) {
				return false
			}
		}
		return true
	}

	type failure struct {
		q      *ObResult
		reason string
	}
	var fails []failure
	var stale []string
	var faults []string
	discharged := 0
	total := 0
	perSolver := map[string]int{}
	solverSecs := 0.0
	var samples []any
	funcsUnder := []string{}
	assumes := map[string]bool{}
	usedCons := map[string]bool{}
	noCon := map[string]bool{}
	extNoCon := map[string]bool{}
	autoFr := map[string]bool{}
	for ri := range recs {
		r := &recs[ri]
		if r.Rejected != "" {
			faults = append(faults, fmt.Sprintf("%s: rejected (outside the supported subset): %s", r.Key, r.Rejected))
			continue
		}
		funcsUnder = append(funcsUnder, strings.TrimSpace(r.Key+" "+r.Split))
		for _, a := range r.Assumes {
			assumes[a] = true
		}
		for _, k := range r.UsedCons {
			usedCons[k] = true
		}
		for _, k := range r.NoContract {
			noCon[k] = true
		}
		for _, k := range r.ExternNoCon {
			extNoCon[k] = true
		}
		for _, k := range r.AutoFramed {
			autoFr[k] = true
		}
		for _, e := range r.SpecErrs {
			// a contract clause that no longer resolves against the code (renamed local, removed field): the function
			// cannot be decided. This is reported as STALE-CONTRACT (exit 2 when nothing else fails), not as a violation:
			// a failed proof for lack of a matching contract says nothing about the property.
			total++
			stale = append(stale, r.Key+": "+e)
		}
		if len(r.SpecErrs) > 0 {
			// the contract of this function is out of step with its code: none of its obligations means anything
			// (clauses may be attached to the wrong loops or call sites); the function is undecided as a whole
			continue
		}
		for qi := range r.Obs {
			q := &r.Obs[qi]
			if q.Kind != "vacuity" && !selected(q.Name) {
				continue
			}
			total++
			solverSecs += q.Secs
			switch {
			case q.Status == "disagree":
				faults = append(faults, q.Name+": solvers disagree: "+q.Output)
			case q.Status == "error":
				faults = append(faults, q.Name+": every solver rejected the query: "+firstLine(q.Output))
			case q.Expect == "notunsat":
				if q.Status == "unsat" {
					faults = append(faults, q.Name+": assumptions are contradictory (vacuous proof)")
				} else {
					discharged++
					perSolver["vacuity-"+q.Status]++
				}
			case q.Status == "unsat":
				discharged++
				perSolver[q.Solver]++
				if len(samples) < 6 {
					samples = append(samples, map[string]any{"obligation": q.Name, "kind": q.Kind, "at": q.Pos, "clause": q.Clause, "solver": q.Solver, "secs": round3(q.Secs), "smt_bytes": q.Bytes})
				}
			default:
				fails = append(fails, failure{q, q.Status})
			}
		}
	}
	for _, st := range stale {
		fmt.Printf("STALE-CONTRACT %s\n", st)
		faults = append(faults, "stale contract: "+st)
	}
	violations := 0
	var knownHit []string
	outDir := filepath.Join(*root, "replay", "out", id)
	if *replayOut != "" {
		outDir = *replayOut
	}
	os.MkdirAll(outDir, 0o755)
	seenKF := map[string]bool{}
	for _, f := range fails {
		sn := stableName(f.q.Name)
		var kf *KnownFinding
		for i := range known {
			if known[i].Status == "known" && known[i].Property == id && matchOb(known[i].Obligation, sn) {
				kf = &known[i]
			}
		}
		if kf != nil {
			if !seenKF[kf.Obligation] {
				fmt.Printf("KNOWN-FINDING: property=%s %s %s\n", id, kf.Obligation, kf.What)
				seenKF[kf.Obligation] = true
			}
			knownHit = append(knownHit, sn)
			continue
		}
		violations++
		rp := filepath.Join(outDir, sanitize(sn)+".json")
		found := runReplay(*root, *repo, id, pc, f.q, f.reason, rp, seed)
		suffix := ""
		if !found {
			suffix = " no-failing-input-found"
		}
		fmt.Printf("VIOLATION property=%s replay=%s%s\n", id, rp, suffix)
		if *verbose {
			fmt.Printf("   obligation %s (%s) at %s: %s\n", f.q.Name, f.reason, f.q.Pos, f.q.Clause)
		}
	}
	// thorough tier: the scenarios that demonstrated the repaired findings of this property are replayed against the
	// real code (regression guard next to the proofs; a replay that fails again is a violation with a concrete input)
	var regress []map[string]any
	if *tier == "thorough" {
		seenFam := map[string]bool{}
		for _, k := range known {
			if k.Status != "fixed" || k.Property != id || !strings.HasPrefix(k.Replay, "replay/families/") || seenFam[k.Replay] {
				continue
			}
			seenFam[k.Replay] = true
			cmd := exec.Command(filepath.Join(*root, k.Replay), *repo, k.Obligation, strconv.Itoa(seed))
			cmd.Env = append(os.Environ(), "VERIF_ROOT="+*root)
			t1 := time.Now()
			b, err := cmd.CombinedOutput()
			out := string(b)
			if len(out) > 4000 {
				out = out[len(out)-4000:]
			}
			failed := err != nil && strings.Contains(out, "FAILING-INPUT")
			regress = append(regress, map[string]any{"family": k.Replay, "finding": k.Obligation, "failed": failed, "secs": round3(time.Since(t1).Seconds())})
			if failed {
				violations++
				rp := filepath.Join(outDir, "regression_"+filepath.Base(k.Replay)+".json")
				rb, _ := json.MarshalIndent(map[string]any{"property": id, "obligation": k.Obligation, "fixed_in": k.Commit, "what": k.What, "replay_family": k.Replay, "replay_output": out, "failing_input_found": true}, "", " ")
				os.WriteFile(rp, rb, 0o644)
				fmt.Printf("VIOLATION property=%s replay=%s\n", id, rp)
			}
		}
	}
	for _, ft := range faults {
		fmt.Printf("ENGINE-FAULT %s\n", ft)
	}
	// evidence
	if !*noEvidence {
		var assume []string
		for a := range assumes {
			assume = append(assume, a)
		}
		for k := range usedCons {
			if c := v.specs.Contracts[k]; c != nil && c.Assumed {
				assume = append(assume, "assumed contract (extern, unchecked): "+k)
			}
		}
		// contracts of repo functions used at call sites here: who proves them
		provedBy := map[string][]string{}
		for pid, pcfg := range props {
			for _, f := range pcfg.Funcs {
				provedBy[f] = append(provedBy[f], pid)
			}
		}
		mine := map[string]bool{}
		for _, f := range pc.Funcs {
			mine[f] = true
		}
		for k := range usedCons {
			c := v.specs.Contracts[k]
			if c == nil || c.Assumed || mine[k] {
				continue
			}
			switch {
			case c.Flags["assumed"]:
				assume = append(assume, "assumed contract (repo function, body not verified against it): "+k)
			case len(provedBy[k]) > 0:
				ps := append([]string(nil), provedBy[k]...)
				sort.Strings(ps)
				assume = append(assume, "contract of repo function "+k+" is used here and proved by the check of "+strings.Join(ps, ", "))
			case c.Flags["inline"] || c.Flags["inline-in"] || len(c.Requires)+len(c.Ensures) == 0:
			default:
				assume = append(assume, "contract of repo function "+k+" is used here and its body is not verified by any registered check")
			}
		}
		seenAL := map[string]bool{}
		for _, fk := range funcsUnder {
			k := strings.Fields(fk + " x")[0]
			if seenAL[k] {
				continue
			}
			seenAL[k] = true
			if c := v.specs.Contracts[k]; c != nil {
				for _, a := range c.AfterLock {
					assume = append(assume, "monitor invariant assumed after lock acquisition in "+k+" (not asserted at the other critical sections): "+a.Src)
				}
			}
		}
		for k := range noCon {
			assume = append(assume, "repo function called without a contract (results and all heap havoced — over-approximation): "+k)
		}
		if len(autoFr) > 0 {
			assume = append(assume, fmt.Sprintf("%d repo callees without contract are replaced by the frame computed by effect inference (fields written, by static type; closed over static calls; function values resolved only for local closures): %s", len(autoFr), strings.Join(sortedKeys(autoFr), ", ")))
		}
		for k := range extNoCon {
			assume = append(assume, "external function without contract (results arbitrary, repo state untouched): "+k)
		}
		assume = append(assume, "integers are mathematical (no overflow) except unsigned wrap-around and explicit conversions",
			"floating point is real arithmetic unless the function is marked ieee",
			"slices are value sequences (no aliasing through shared backing arrays)",
			"the VC generator (vcgo) and the SMT solvers are trusted; axioms of the Str/Seq theories and the lexicographic order are trusted (vcgo/state.go, vcgo/verify.go)")
		assume = append(assume, pc.Trusted...)
		sort.Strings(assume)
		var trusted []string
		for _, ax := range v.specs.Axioms {
			if !ax.Lemma {
				trusted = append(trusted, "axiom "+ax.Name+": "+ax.Clause.Src)
			}
		}
		trusted = append(trusted, "vcgo VC generator", "z3 4.8.12 / z3 5.1.0 / cvc5 1.0.3", "sequence and string-order axioms (vcgo)")
		ev := map[string]any{
			"property_id": id, "tier": *tier, "seed": seed, "level": "proof",
			"coverage": map[string]any{
				"obligations": total - len(knownHit), "discharged": discharged,
				"checker_cmd":  "vcgo check -tier " + *tier + " " + id + "  (z3-new | cvc5 | z3 raced per obligation)",
				"trusted_base": trusted, "functions_under_contract": funcsUnder,
				"per_backend": perSolver, "solver_seconds": round3(solverSecs),
				"known_finding_obligations": knownHit, "bounded": pc.Bounded,
				"samples": samples, "failed": len(fails) - len(knownHit), "engine_faults": faults,
				"notes": pc.Notes, "regression_replays": regress,
			},
			"assumptions": assume, "wall_s": round3(time.Since(t0).Seconds()), "violations": violations,
		}
		os.MkdirAll(filepath.Join(*root, "evidence"), 0o755)
		b, _ := json.MarshalIndent(ev, "", " ")
		os.WriteFile(filepath.Join(*root, "evidence", id+".json"), b, 0o644)
	}
	fmt.Printf("%s: %d obligations, %d discharged, %d known-finding, %d violations, %d engine faults, %.1fs\n", id, total, discharged, len(knownHit), violations, len(faults), time.Since(t0).Seconds())
	// a named obligation that fails is a violation whether or not other queries also hit an engine problem
	if violations > 0 {
		os.Exit(1)
	}
	if len(faults) > 0 {
		os.Exit(2)
	}
}

func firstLine(s string) string {
	if i := strings.Index(s, "\n"); i >= 0 {
		return s[:i]
	}
	return s
}

func clauseOf(q *Query) string {
	if q.obl != nil && q.obl.Clause != "" {
		return q.obl.Clause
	}
	return q.Descr
}

func round3(f float64) float64 { return float64(int(f*1000+0.5)) / 1000 }

func matchOb(pat, name string) bool {
	if pat == name {
		return true
	}
	if strings.ContainsAny(pat, "*^$|\\(?[") {
		if re, err := regexp.Compile("^(?:" + pat + ")$"); err == nil {
			return re.MatchString(name)
		}
	}
	return false
}

func readJSON(path string, v any) error {
	b, err := os.ReadFile(path)
	if err != nil {
		return err
	}
	return json.Unmarshal(b, v)
}

// runReplay tries to find a concrete failing input on the real code for a failed obligation.
// It always writes the replay file (obligation, solver output, model if any); returns true iff a failing input was found.
func runReplay(root, repo, id string, pc *PropConfig, q *ObResult, reason, path string, seed int) bool {
	rec := map[string]any{"property": id, "obligation": q.Name, "function": q.Func, "at": q.Pos, "clause": q.Clause, "solver_status": reason, "solver": q.Solver}
	rec["solver_output"] = q.Output
	if len(q.Model) > 0 {
		rec["model_inputs"] = q.Model
	}
	found := false
	fam := ""
	for pat, f := range pc.Replay {
		if matchOb(pat, stableName(q.Name)) {
			fam = f
		}
	}
	if fam != "" {
		script := filepath.Join(root, "replay", "families", fam)
		cmd := exec.Command(script, repo, stableName(q.Name), strconv.Itoa(seed))
		mj, _ := json.Marshal(q.Model)
		cmd.Env = append(os.Environ(), "VERIF_ROOT="+root, "VERIF_MODEL="+string(mj))
		b, err := cmd.CombinedOutput()
		s := string(b)
		if len(s) > 8000 {
			s = s[len(s)-8000:]
		}
		rec["replay_family"] = fam
		rec["replay_output"] = s
		if err != nil && strings.Contains(s, "FAILING-INPUT") {
			found = true
		}
	}
	rec["failing_input_found"] = found
	b, _ := json.MarshalIndent(rec, "", " ")
	os.WriteFile(path, b, 0o644)
	return found
}

var reDef = regexp.MustCompile(`\(define-fun ([^ ]+) \(\) [^ ]+\s+([^\n]+)\)`)

func modelInputs(inputs map[string]string, model string) map[string]string {
	vals := map[string]string{}
	for _, m := range reDef.FindAllStringSubmatch(model, -1) {
		vals[m[1]] = strings.TrimSpace(m[2])
	}
	out := map[string]string{}
	for name, term := range inputs {
		if v, ok := vals[term]; ok {
			out[name] = v
		}
	}
	return out
}
