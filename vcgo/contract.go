package main

// Contract files: //@ lines in /repo/internal/<pkg>/contracts_verif.go (build tag verif)
// and extern (assumed) contracts in /verif/contracts/extern/*.spec.

import (
	"fmt"
	"go/ast"
	"go/parser"
	"os"
	"regexp"
	"strconv"
	"strings"
)

// AtCall is an assertion evaluated in the caller's scope right before the Ord-th call (source order, 1-based;
// 0 = every call) of Callee (short key, e.g. "Server.setCaughtUp"); arg0, arg1, ... name the actual arguments.
type AtCall struct {
	Callee    string
	Ord       int
	Cl        Clause
	Assume    bool   // environment assumption (listed in the evidence) instead of an obligation
	SetVar    string // set-at-call: the ghost variable that receives the value of Cl at this point
	After     bool   // set-after-call: evaluated after the call, `result`/`resultN` are the call's results
	Interfere string // "before" | "after": other threads run at this point (interfere-at-call / interfere-after-call)
}

type Clause struct {
	Label string
	Src   string
	Expr  ast.Expr
	Line  string // file:line
}

type LoopSpec struct {
	Inv    []Clause
	Entry  []Clause // asserted when the loop is reached, not part of the invariant
	Forget []int    // `loop N forget M`: on reaching loop N the invariant facts of the finished loop M are dropped from the hypotheses
	Keep   []Clause // `loop N keep [label] e`: asserted on reaching the loop and kept as a hypothesis afterwards
	OnStop []Clause // iterator loops: asserted in the state where the callback has just answered "stop"
	Decr   *Clause
}

type GhostFunc struct {
	Name    string
	Params  []string
	PSorts  []Sort
	Ret     Sort
	Body    ast.Expr // nil: uninterpreted
	BodySrc string
	Assumed bool
	Macro   bool // expanded at each use (may read the heap); parameters are untyped
}

type Axiom struct {
	Name    string
	Clause  Clause
	Assumed bool // from extern file (trusted) – all axioms are trusted; flag only says where it came from
	File    string
	Lemma   bool     // proved as its own obligation from Uses
	Uses    []string // axioms/lemmas a lemma's proof may use
}

type Split struct {
	Name   string
	AtCall string   // "" = condition on the precondition state; else: assumed on the result of the first call of this callee
	Cases  []Clause // Label = case name
}

type Contract struct {
	Key          string
	Params       []string // explicit parameter names (extern contracts)
	Requires     []Clause
	Ensures      []Clause
	Modifies     []Clause
	ModAll       bool
	Loops        map[int]*LoopSpec
	Flags        map[string]bool
	Splits       []*Split
	Asserts      map[string][]Clause // "at <label>" assertions
	Lemmas       []string            // axioms names to use (empty = all)
	Mutates      []string            // abstract-valued parameters (usually the receiver) updated in place
	Iter         *IterSpec           // the callee calls a callback over a ghost sequence
	Gates        []Gate              // extra conditions asserted at every call of a command handler
	AtCall       []AtCall            // extra obligations at the call sites of a callee inside this function
	EntryAssume  []Clause            // system state invariants assumed on entry (listed), not part of the precondition callers must establish
	AtReturn     []Clause            // obligations at every return, in the function's own scope (locals allowed); not seen by callers
	Rely         []Clause            // facts about shared state that hold after any interference by other threads (old() = before it)
	InterfGhosts []string            // ghost variables other threads may change
	AfterLock    []Clause            // monitor invariants assumed right after a lock acquisition inside this function (listed as assumptions)
	HavocRegions []string            // (lock acquisition) regions of shared state other threads may have changed
	Assumed      bool                // extern (trusted) contract
	File         string
	Line         int
}

// IterSpec: `iterates <param> seq <S> args <a1>, <a2> ...` — the callee invokes <param>(a1, a2, ...) for it = S[0], S[1], ...
// (index k), stopping after the first invocation that returns false.
type IterSpec struct {
	Param string
	Seq   Clause
	Args  []Clause
	When  *Clause // only elements satisfying this are passed to the callback (others are skipped)
	Pos   *Clause // callee side: expression (over the function's locals) giving the index in S of the element being passed
	Guard *Clause // the iteration contract holds only when this condition on the parameters holds (else only `Only`)
	Only  *Clause // `invokes <param> only <cond on it>`: every invocation's first argument satisfies cond (always)
}

// Gate: `gate NAME: COND except cmdA, cmdB` — in the function carrying it, COND is asserted at every call of a
// command handler (cmdXxx(msg ...)) other than the excepted ones.
type Gate struct {
	Name   string
	Cond   Clause
	Except map[string]bool
}

type GhostVar struct {
	Name    string
	Sort    Sort
	Scratch bool // `ghost scratch`: private to each function activation (set-at-call snapshots); never part of a frame
}

type Specs struct {
	Contracts map[string]*Contract
	Ghosts    map[string]*GhostFunc
	GhostVars map[string]*GhostVar
	GVOrder   []string
	Axioms    []*Axiom
	Consts    map[string]string // ghost named constants
	Abstract  map[string]Sort   // "btree.Map" -> sort of its abstract value
	Regions   []*Region
	FieldInv  map[string]string // "pkg.Type.field" -> "nonnil": holds for every allocated object (field assigned only by constructors)
}

func newSpecs() *Specs {
	return &Specs{Contracts: map[string]*Contract{}, Ghosts: map[string]*GhostFunc{}, GhostVars: map[string]*GhostVar{}, Consts: map[string]string{}, Abstract: map[string]Sort{}, FieldInv: map[string]string{}}
}

var reLabel = regexp.MustCompile(`^\[([A-Za-z0-9_.:=,|<>+\-]+)\]\s*`)

// rewriteImp rewrites `a ==> b` into imp(a, b) and `a <==> b` into iff(a,b) at every paren level.
func rewriteImp(s string) string {
	// find top-level operator (depth 0, outside literals)
	type tok struct{ pos, n int }
	depth := 0
	imp, iff := -1, -1
	for i := 0; i < len(s); i++ {
		c := s[i]
		switch c {
		case '"':
			j := i + 1
			for j < len(s) && s[j] != '"' {
				if s[j] == '\\' {
					j++
				}
				j++
			}
			i = j
		case '\'':
			j := i + 1
			for j < len(s) && s[j] != '\'' {
				if s[j] == '\\' {
					j++
				}
				j++
			}
			i = j
		case '`':
			j := i + 1
			for j < len(s) && s[j] != '`' {
				j++
			}
			i = j
		case '(', '[', '{':
			depth++
		case ')', ']', '}':
			depth--
		case '<':
			if depth == 0 && strings.HasPrefix(s[i:], "<==>") && iff < 0 {
				iff = i
				i += 3
			}
		case '=':
			if depth == 0 && strings.HasPrefix(s[i:], "==>") && imp < 0 {
				imp = i
				i += 2
			}
		}
	}
	if iff >= 0 {
		return "iff(" + rewriteImp(s[:iff]) + ", " + rewriteImp(s[iff+4:]) + ")"
	}
	if imp >= 0 {
		return "imp(" + rewriteImp(s[:imp]) + ", " + rewriteImp(s[imp+3:]) + ")"
	}
	// recurse into parenthesised groups
	var b strings.Builder
	for i := 0; i < len(s); i++ {
		c := s[i]
		switch c {
		case '"', '\'', '`':
			j := i + 1
			for j < len(s) && s[j] != c {
				if s[j] == '\\' && c != '`' {
					j++
				}
				j++
			}
			if j >= len(s) {
				j = len(s) - 1
			}
			b.WriteString(s[i : j+1])
			i = j
		case '(':
			// find matching
			d := 0
			j := i
			for ; j < len(s); j++ {
				if s[j] == '"' || s[j] == '\'' || s[j] == '`' {
					q := s[j]
					j++
					for j < len(s) && s[j] != q {
						if s[j] == '\\' && q != '`' {
							j++
						}
						j++
					}
					continue
				}
				if s[j] == '(' {
					d++
				} else if s[j] == ')' {
					d--
					if d == 0 {
						break
					}
				}
			}
			if j >= len(s) {
				b.WriteString(s[i:])
				return b.String()
			}
			inner := s[i+1 : j]
			// split arguments at top-level commas so that each argument may hold an implication
			parts := splitTop(inner, ',')
			for k := range parts {
				parts[k] = rewriteImp(parts[k])
			}
			b.WriteString("(" + strings.Join(parts, ",") + ")")
			i = j
		default:
			b.WriteByte(c)
		}
	}
	return b.String()
}

func splitTop(s string, sep byte) []string {
	var parts []string
	depth := 0
	last := 0
	for i := 0; i < len(s); i++ {
		c := s[i]
		switch c {
		case '"', '\'', '`':
			j := i + 1
			for j < len(s) && s[j] != c {
				if s[j] == '\\' && c != '`' {
					j++
				}
				j++
			}
			i = j
		case '(', '[', '{':
			depth++
		case ')', ']', '}':
			depth--
		default:
			if c == sep && depth == 0 {
				parts = append(parts, s[last:i])
				last = i + 1
			}
		}
	}
	parts = append(parts, s[last:])
	return parts
}

func parseSpecExpr(src string) (ast.Expr, error) {
	r := rewriteImp(src)
	e, err := parser.ParseExpr(r)
	if err != nil {
		return nil, fmt.Errorf("spec expression %q: %v", src, err)
	}
	return e, nil
}

func parseSortName(s string) (Sort, error) {
	s = strings.TrimSpace(s)
	switch s {
	case "int", "ref", "byte", "int64", "uint64":
		return SInt, nil
	case "bool":
		return SBool, nil
	case "string", "[]byte":
		return SStr, nil
	case "float64", "real":
		return SReal, nil
	}
	if strings.HasPrefix(s, "[]") {
		e, err := parseSortName(s[2:])
		if err != nil {
			return SNone, err
		}
		return seqSort(e), nil
	}
	if strings.HasPrefix(s, "set[") && strings.HasSuffix(s, "]") {
		k, err := parseSortName(s[4 : len(s)-1])
		if err != nil {
			return SNone, err
		}
		return arrSort(k, SBool), nil
	}
	if strings.HasPrefix(s, "map[") {
		i := strings.Index(s, "]")
		k, err := parseSortName(s[4:i])
		if err != nil {
			return SNone, err
		}
		v, err := parseSortName(s[i+1:])
		if err != nil {
			return SNone, err
		}
		return arrSort(k, v), nil
	}
	if strings.HasPrefix(s, "smt:") {
		return Sort(s[4:]), nil
	}
	return SNone, fmt.Errorf("unknown spec sort %q", s)
}

var reGhostMacro = regexp.MustCompile(`^ghost\s+macro\s+([A-Za-z_][A-Za-z0-9_]*)\s*\(([^)]*)\)\s*=\s*(.*)$`)
var reGhostFunc = regexp.MustCompile(`^ghost\s+(func|def)\s+([A-Za-z_][A-Za-z0-9_]*)\s*\(([^)]*)\)\s*([^=]+?)\s*(=\s*(.*))?$`)
var reFuncHdr = regexp.MustCompile(`^func\s+([A-Za-z_][A-Za-z0-9_.@]*)\s*(\(([^)]*)\))?\s*$`)

// loadSpecFile parses the //@ lines of a file. pkgPrefix ("glob") is prepended to func keys
// that have no package qualifier (contracts inside the repo); extern files give full keys.
func (sp *Specs) loadSpecFile(path, pkgPrefix string, assumed bool) error {
	data, err := os.ReadFile(path)
	if err != nil {
		return err
	}
	lines := strings.Split(string(data), "\n")
	// join continuation lines: a //@ line whose content starts with '|' continues the previous one
	type L struct {
		txt string
		ln  int
	}
	var ls []L
	for i, raw := range lines {
		t := strings.TrimSpace(raw)
		if !strings.HasPrefix(t, "//@") {
			continue
		}
		c := strings.TrimSpace(t[3:])
		if c == "" || strings.HasPrefix(c, "--") {
			continue
		}
		if strings.HasPrefix(c, "|") && len(ls) > 0 {
			ls[len(ls)-1].txt += " " + strings.TrimSpace(c[1:])
			continue
		}
		ls = append(ls, L{c, i + 1})
	}
	var cur *Contract
	mkClause := func(src string, ln int) (Clause, error) {
		cl := Clause{Line: fmt.Sprintf("%s:%d", path, ln)}
		if m := reLabel.FindStringSubmatch(src); m != nil {
			cl.Label = m[1]
			src = src[len(m[0]):]
		}
		cl.Src = src
		e, err := parseSpecExpr(src)
		if err != nil {
			return cl, fmt.Errorf("%s:%d: %v", path, ln, err)
		}
		cl.Expr = e
		return cl, nil
	}
	for _, l := range ls {
		c := l.txt
		word := c
		rest := ""
		if i := strings.IndexAny(c, " \t"); i >= 0 {
			word, rest = c[:i], strings.TrimSpace(c[i+1:])
		}
		switch word {
		case "ghost":
			if strings.HasPrefix(rest, "var ") || strings.HasPrefix(rest, "scratch ") {
				scratch := strings.HasPrefix(rest, "scratch ")
				f := strings.Fields(rest[strings.Index(rest, " ")+1:])
				if len(f) != 2 {
					return fmt.Errorf("%s:%d: ghost var NAME SORT", path, l.ln)
				}
				so, err := parseSortName(f[1])
				if err != nil {
					return fmt.Errorf("%s:%d: %v", path, l.ln, err)
				}
				if _, ok := sp.GhostVars[f[0]]; !ok {
					sp.GhostVars[f[0]] = &GhostVar{Name: f[0], Sort: so, Scratch: scratch}
					sp.GVOrder = append(sp.GVOrder, f[0])
				}
				continue
			}
			if strings.HasPrefix(rest, "const ") {
				f := strings.SplitN(rest[6:], "=", 2)
				if len(f) != 2 {
					return fmt.Errorf("%s:%d: ghost const NAME = VALUE", path, l.ln)
				}
				sp.Consts[strings.TrimSpace(f[0])] = strings.TrimSpace(f[1])
				continue
			}
			if mm := reGhostMacro.FindStringSubmatch(c); mm != nil {
				gf := &GhostFunc{Name: mm[1], Assumed: assumed, Macro: true, BodySrc: mm[3]}
				for _, p := range strings.Split(mm[2], ",") {
					if p = strings.TrimSpace(p); p != "" {
						gf.Params = append(gf.Params, p)
					}
				}
				e, err := parseSpecExpr(mm[3])
				if err != nil {
					return fmt.Errorf("%s:%d: %v", path, l.ln, err)
				}
				gf.Body = e
				sp.Ghosts[gf.Name] = gf
				cur = nil
				continue
			}
			m := reGhostFunc.FindStringSubmatch(c)
			if m == nil {
				return fmt.Errorf("%s:%d: bad ghost declaration: %s", path, l.ln, c)
			}
			gf := &GhostFunc{Name: m[2], Assumed: assumed}
			if strings.TrimSpace(m[3]) != "" {
				for _, p := range strings.Split(m[3], ",") {
					f := strings.Fields(strings.TrimSpace(p))
					if len(f) != 2 {
						return fmt.Errorf("%s:%d: ghost param %q", path, l.ln, p)
					}
					so, err := parseSortName(f[1])
					if err != nil {
						return fmt.Errorf("%s:%d: %v", path, l.ln, err)
					}
					gf.Params = append(gf.Params, f[0])
					gf.PSorts = append(gf.PSorts, so)
				}
			}
			so, err := parseSortName(m[4])
			if err != nil {
				return fmt.Errorf("%s:%d: %v", path, l.ln, err)
			}
			gf.Ret = so
			if m[1] == "def" {
				if m[6] == "" {
					return fmt.Errorf("%s:%d: ghost def needs a body", path, l.ln)
				}
				e, err := parseSpecExpr(m[6])
				if err != nil {
					return fmt.Errorf("%s:%d: %v", path, l.ln, err)
				}
				gf.Body = e
				gf.BodySrc = m[6]
			}
			sp.Ghosts[gf.Name] = gf
			cur = nil
		case "lemma-uses":
			if len(sp.Axioms) == 0 || !sp.Axioms[len(sp.Axioms)-1].Lemma {
				return fmt.Errorf("%s:%d: lemma-uses without lemma", path, l.ln)
			}
			for _, p := range strings.Split(rest, ",") {
				sp.Axioms[len(sp.Axioms)-1].Uses = append(sp.Axioms[len(sp.Axioms)-1].Uses, strings.TrimSpace(p))
			}
		case "axiom", "lemma":
			i := strings.Index(rest, ":")
			if i < 0 {
				return fmt.Errorf("%s:%d: axiom NAME: formula", path, l.ln)
			}
			cl, err := mkClause(strings.TrimSpace(rest[i+1:]), l.ln)
			if err != nil {
				return err
			}
			sp.Axioms = append(sp.Axioms, &Axiom{Name: strings.TrimSpace(rest[:i]), Clause: cl, Assumed: assumed, File: path, Lemma: word == "lemma"})
			cur = nil
		case "func":
			m := reFuncHdr.FindStringSubmatch(c)
			if m == nil {
				return fmt.Errorf("%s:%d: bad func header: %s", path, l.ln, c)
			}
			key := m[1]
			if pkgPrefix != "" {
				key = pkgPrefix + "." + key
			}
			cur = &Contract{Key: key, Loops: map[int]*LoopSpec{}, Flags: map[string]bool{}, Asserts: map[string][]Clause{}, Assumed: assumed, File: path, Line: l.ln}
			if m[2] != "" && strings.TrimSpace(m[3]) != "" {
				for _, p := range strings.Split(m[3], ",") {
					cur.Params = append(cur.Params, strings.TrimSpace(p))
				}
			}
			if _, dup := sp.Contracts[key]; dup {
				return fmt.Errorf("%s:%d: duplicate contract for %s", path, l.ln, key)
			}
			sp.Contracts[key] = cur
		case "requires", "ensures", "modifies":
			if cur == nil {
				return fmt.Errorf("%s:%d: clause outside func", path, l.ln)
			}
			if word == "modifies" {
				if rest == "*" || rest == "everything" {
					cur.ModAll = true
					continue
				}
				if rest == "nothing" {
					cur.Flags["modifies-nothing"] = true
					continue
				}
				for _, p := range splitTop(rest, ',') {
					cl, err := mkClause(strings.TrimSpace(p), l.ln)
					if err != nil {
						return err
					}
					cur.Modifies = append(cur.Modifies, cl)
				}
				continue
			}
			cl, err := mkClause(rest, l.ln)
			if err != nil {
				return err
			}
			if word == "requires" {
				cur.Requires = append(cur.Requires, cl)
			} else {
				cur.Ensures = append(cur.Ensures, cl)
			}
		case "loop", "closure":
			if cur == nil {
				return fmt.Errorf("%s:%d: clause outside func", path, l.ln)
			}
			f := strings.SplitN(rest, " ", 3)
			if len(f) < 3 {
				return fmt.Errorf("%s:%d: loop N invariant|decreases E", path, l.ln)
			}
			n, err := strconv.Atoi(f[0])
			if err != nil {
				return fmt.Errorf("%s:%d: loop ordinal: %v", path, l.ln, err)
			}
			if word == "closure" {
				// `closure N invariant`: the N-th function literal handed to a callee that gives no iteration contract
				// for it (it may be invoked any number of times): the invariant holds at the start of every invocation
				n += 1000
			}
			ls := cur.Loops[n]
			if ls == nil {
				ls = &LoopSpec{}
				cur.Loops[n] = ls
			}
			cl, err := mkClause(strings.TrimSpace(f[2]), l.ln)
			if err != nil {
				return err
			}
			switch f[1] {
			case "invariant":
				ls.Inv = append(ls.Inv, cl)
			case "decreases":
				ls.Decr = &cl
			case "entry":
				ls.Entry = append(ls.Entry, cl)
			case "on-stop":
				ls.OnStop = append(ls.OnStop, cl)
			case "keep":
				ls.Keep = append(ls.Keep, cl)
			case "forget":
				m, err := strconv.Atoi(strings.TrimSpace(cl.Src))
				if err != nil {
					return fmt.Errorf("%s:%d: loop N forget M", path, l.ln)
				}
				ls.Forget = append(ls.Forget, m)
			default:
				return fmt.Errorf("%s:%d: loop clause %q", path, l.ln, f[1])
			}
		case "split":
			if cur == nil {
				return fmt.Errorf("%s:%d: clause outside func", path, l.ln)
			}
			i := strings.Index(rest, ":")
			if i < 0 {
				return fmt.Errorf("%s:%d: split NAME: [l1] c1 | [l2] c2", path, l.ln)
			}
			s := &Split{Name: strings.TrimSpace(rest[:i])}
			if j := strings.Index(s.Name, "@"); j >= 0 {
				s.AtCall = strings.TrimSpace(s.Name[j+1:])
				s.Name = strings.TrimSpace(s.Name[:j])
			}
			for _, p := range splitTop(rest[i+1:], '|') {
				// careful: '||' – splitTop splits on single '|'; re-join empty parts
				_ = p
			}
			parts := splitCases(rest[i+1:])
			for _, p := range parts {
				p = strings.TrimSpace(p)
				if strings.Contains(p, ";;") {
					cl := Clause{Line: fmt.Sprintf("%s:%d", path, l.ln)}
					if m := reLabel.FindStringSubmatch(p); m != nil {
						cl.Label = m[1]
						p = p[len(m[0]):]
					}
					cl.Src = p
					s.Cases = append(s.Cases, cl)
					continue
				}
				cl, err := mkClause(p, l.ln)
				if err != nil {
					return err
				}
				s.Cases = append(s.Cases, cl)
			}
			cur.Splits = append(cur.Splits, s)
		case "at":
			if cur == nil {
				return fmt.Errorf("%s:%d: clause outside func", path, l.ln)
			}
			// at LABEL assert E
			f := strings.SplitN(rest, " ", 3)
			if len(f) < 3 || (f[1] != "assert" && f[1] != "assume-lemma") {
				return fmt.Errorf("%s:%d: at LABEL assert E", path, l.ln)
			}
			cl, err := mkClause(strings.TrimSpace(f[2]), l.ln)
			if err != nil {
				return err
			}
			cur.Asserts[f[0]] = append(cur.Asserts[f[0]], cl)
		case "fieldinv":
			f := strings.Fields(rest)
			if len(f) != 2 || f[1] != "nonnil" {
				return fmt.Errorf("%s:%d: fieldinv pkg.Type.field nonnil", path, l.ln)
			}
			sp.FieldInv[f[0]] = f[1]
			cur = nil
		case "region":
			i := strings.Index(rest, ":")
			if i < 0 {
				return fmt.Errorf("%s:%d: region NAME: key, key", path, l.ln)
			}
			r := &Region{Name: strings.TrimSpace(rest[:i])}
			for _, k := range strings.Split(rest[i+1:], ",") {
				r.Keys = append(r.Keys, strings.TrimSpace(k))
			}
			sp.Regions = append(sp.Regions, r)
			cur = nil
		case "abstract":
			f := strings.Fields(rest)
			if len(f) != 2 {
				return fmt.Errorf("%s:%d: abstract pkg.Type SORT", path, l.ln)
			}
			so, err := parseSortName(f[1])
			if err != nil {
				return fmt.Errorf("%s:%d: %v", path, l.ln, err)
			}
			sp.Abstract[f[0]] = so
			cur = nil
		case "iterates":
			if cur == nil {
				return fmt.Errorf("%s:%d: clause outside func", path, l.ln)
			}
			i1 := strings.Index(rest, " seq ")
			i2 := strings.Index(rest, " args ")
			if i1 < 0 || i2 < i1 {
				return fmt.Errorf("%s:%d: iterates PARAM seq S args A1, A2", path, l.ln)
			}
			it := &IterSpec{Param: strings.TrimSpace(rest[:i1])}
			cl, err := mkClause(strings.TrimSpace(rest[i1+5:i2]), l.ln)
			if err != nil {
				return err
			}
			it.Seq = cl
			if i5 := strings.Index(rest, " if "); i5 > i2 {
				gc, err := mkClause(strings.TrimSpace(rest[i5+4:]), l.ln)
				if err != nil {
					return err
				}
				it.Guard = &gc
				rest = rest[:i5]
			}
			if i3 := strings.Index(rest, " position "); i3 > i2 {
				pc, err := mkClause(strings.TrimSpace(rest[i3+10:]), l.ln)
				if err != nil {
					return err
				}
				it.Pos = &pc
				rest = rest[:i3]
			}
			if i4 := strings.Index(rest, " when "); i4 > i2 {
				wc, err := mkClause(strings.TrimSpace(rest[i4+6:]), l.ln)
				if err != nil {
					return err
				}
				it.When = &wc
				rest = rest[:i4]
			}
			for _, a := range splitTop(rest[i2+6:], ',') {
				cl, err := mkClause(strings.TrimSpace(a), l.ln)
				if err != nil {
					return err
				}
				it.Args = append(it.Args, cl)
			}
			if cur.Iter != nil && cur.Iter.Only != nil {
				it.Only = cur.Iter.Only
			}
			cur.Iter = it
		case "invokes":
			if cur == nil {
				return fmt.Errorf("%s:%d: clause outside func", path, l.ln)
			}
			io := strings.Index(rest, " only ")
			if io < 0 {
				return fmt.Errorf("%s:%d: invokes PARAM only COND", path, l.ln)
			}
			oc, err := mkClause(strings.TrimSpace(rest[io+6:]), l.ln)
			if err != nil {
				return err
			}
			if cur.Iter == nil {
				cur.Iter = &IterSpec{Param: strings.TrimSpace(rest[:io])}
			}
			cur.Iter.Only = &oc
		case "gate":
			if cur == nil {
				return fmt.Errorf("%s:%d: clause outside func", path, l.ln)
			}
			i := strings.Index(rest, ":")
			if i < 0 {
				return fmt.Errorf("%s:%d: gate NAME: COND [except a, b]", path, l.ln)
			}
			g := Gate{Name: strings.TrimSpace(rest[:i]), Except: map[string]bool{}}
			body := rest[i+1:]
			if j := strings.Index(body, " except "); j >= 0 {
				for _, e := range strings.Split(body[j+8:], ",") {
					g.Except[strings.TrimSpace(e)] = true
				}
				body = body[:j]
			}
			cl, err := mkClause(strings.TrimSpace(body), l.ln)
			if err != nil {
				return err
			}
			g.Cond = cl
			cur.Gates = append(cur.Gates, g)
		case "at-call", "env-at-call", "set-at-call", "set-after-call":
			if cur == nil {
				return fmt.Errorf("%s:%d: clause outside func", path, l.ln)
			}
			f := strings.SplitN(rest, " ", 2)
			if len(f) != 2 {
				return fmt.Errorf("%s:%d: at-call Callee[#k] [label] expr", path, l.ln)
			}
			ac := AtCall{Callee: f[0], Assume: word == "env-at-call"}
			if i := strings.Index(f[0], "#"); i >= 0 {
				ac.Callee = f[0][:i]
				ac.Ord, _ = strconv.Atoi(f[0][i+1:])
			}
			body := strings.TrimSpace(f[1])
			if word == "set-at-call" || word == "set-after-call" {
				ac.After = word == "set-after-call"
				j := strings.Index(body, "=")
				if j < 0 {
					return fmt.Errorf("%s:%d: set-at-call Callee[#k] ghostvar = expr", path, l.ln)
				}
				ac.SetVar = strings.TrimSpace(body[:j])
				body = strings.TrimSpace(body[j+1:])
			}
			cl, err := mkClause(body, l.ln)
			if err != nil {
				return err
			}
			ac.Cl = cl
			cur.AtCall = append(cur.AtCall, ac)
		case "interfere-at-call", "interfere-after-call":
			if cur == nil {
				return fmt.Errorf("%s:%d: clause outside func", path, l.ln)
			}
			ac := AtCall{Callee: strings.TrimSpace(rest), Interfere: "before"}
			if word == "interfere-after-call" {
				ac.Interfere = "after"
			}
			if i := strings.Index(ac.Callee, "#"); i >= 0 {
				ac.Ord, _ = strconv.Atoi(ac.Callee[i+1:])
				ac.Callee = ac.Callee[:i]
			}
			cur.AtCall = append(cur.AtCall, ac)
		case "entry-assume":
			if cur == nil {
				return fmt.Errorf("%s:%d: clause outside func", path, l.ln)
			}
			cl, err := mkClause(rest, l.ln)
			if err != nil {
				return err
			}
			cur.EntryAssume = append(cur.EntryAssume, cl)
		case "at-return":
			if cur == nil {
				return fmt.Errorf("%s:%d: clause outside func", path, l.ln)
			}
			cl, err := mkClause(rest, l.ln)
			if err != nil {
				return err
			}
			cur.AtReturn = append(cur.AtReturn, cl)
		case "rely":
			if cur == nil {
				return fmt.Errorf("%s:%d: clause outside func", path, l.ln)
			}
			cl, err := mkClause(rest, l.ln)
			if err != nil {
				return err
			}
			cur.Rely = append(cur.Rely, cl)
		case "interference-ghosts":
			if cur == nil {
				return fmt.Errorf("%s:%d: clause outside func", path, l.ln)
			}
			for _, g := range strings.Split(rest, ",") {
				cur.InterfGhosts = append(cur.InterfGhosts, strings.TrimSpace(g))
			}
		case "after-lock":
			if cur == nil {
				return fmt.Errorf("%s:%d: clause outside func", path, l.ln)
			}
			cl, err := mkClause(rest, l.ln)
			if err != nil {
				return err
			}
			cur.AfterLock = append(cur.AfterLock, cl)
		case "havocs":
			if cur == nil {
				return fmt.Errorf("%s:%d: clause outside func", path, l.ln)
			}
			for _, r := range strings.Split(rest, ",") {
				cur.HavocRegions = append(cur.HavocRegions, strings.TrimSpace(r))
			}
		case "mutates":
			if cur == nil {
				return fmt.Errorf("%s:%d: clause outside func", path, l.ln)
			}
			for _, p := range strings.Split(rest, ",") {
				cur.Mutates = append(cur.Mutates, strings.TrimSpace(p))
			}
		case "uses":
			if cur == nil {
				return fmt.Errorf("%s:%d: clause outside func", path, l.ln)
			}
			for _, p := range strings.Split(rest, ",") {
				cur.Lemmas = append(cur.Lemmas, strings.TrimSpace(p))
			}
		default:
			// flags: nopanic, ieee, pure, inline, bitvector ...
			if cur == nil {
				return fmt.Errorf("%s:%d: unknown directive %q", path, l.ln, word)
			}
			cur.Flags[word] = true
			if rest != "" {
				cur.Flags[word+":"+rest] = true
			}
		}
	}
	return nil
}

// splitCases splits on " | " that is not part of "||".
func splitCases(s string) []string {
	var parts []string
	depth := 0
	last := 0
	for i := 0; i < len(s); i++ {
		switch s[i] {
		case '(', '[', '{':
			depth++
		case ')', ']', '}':
			depth--
		case '"', '\'', '`':
			c := s[i]
			j := i + 1
			for j < len(s) && s[j] != c {
				if s[j] == '\\' && c != '`' {
					j++
				}
				j++
			}
			i = j
		case '|':
			if depth == 0 {
				if i+1 < len(s) && s[i+1] == '|' {
					i++
					continue
				}
				parts = append(parts, s[last:i])
				last = i + 1
			}
		}
	}
	parts = append(parts, s[last:])
	return parts
}
