package tests

// Regression replays for no-panic findings (C16): malformed input must not crash the server.

import (
	"fmt"
	"net"
	"testing"
	"time"
)

func verifRaw(t *testing.T, port int, payload string) string {
	t.Helper()
	c, err := net.Dial("tcp", fmt.Sprintf("127.0.0.1:%d", port))
	if err != nil {
		t.Fatalf("dial: %v", err)
	}
	defer c.Close()
	c.Write([]byte(payload))
	c.SetReadDeadline(time.Now().Add(500 * time.Millisecond))
	buf := make([]byte, 4096)
	n, _ := c.Read(buf)
	return string(buf[:n])
}

// F12: `SCAN k WHERE f "" 5` indexed the first byte of an empty token.
func TestVerifReplayWhereEmptyToken(t *testing.T) {
	mc, err := mockOpenServer(MockServerOptions{Silent: true})
	if err != nil {
		t.Fatal(err)
	}
	defer mc.Close()
	verifRaw(t, mc.port, "*6\r\n$4\r\nSCAN\r\n$1\r\nk\r\n$5\r\nWHERE\r\n$1\r\nf\r\n$0\r\n\r\n$1\r\n5\r\n")
	if err := mc.DoExpect("PONG", "PING"); err != nil {
		t.Fatalf("FAILING-INPUT: server not alive after SCAN k WHERE f \"\" 5: %v", err)
	}
}

// native protocol: `set k id string "` — a value that is one double quote
func TestVerifReplayNativeLoneQuote(t *testing.T) {
	mc, err := mockOpenServer(MockServerOptions{Silent: true})
	if err != nil {
		t.Fatal(err)
	}
	defer mc.Close()
	// the HTTP transport parses its path with the native line parser (readNativeMessageLine)
	verifRaw(t, mc.port, "GET /set%20k%20id%20string%20%22 HTTP/1.1\r\nHost: x\r\n\r\n")
	if err := mc.DoExpect("PONG", "PING"); err != nil {
		t.Fatalf("FAILING-INPUT: server not alive after HTTP `set k id string \"`: %v", err)
	}
}

// WHEREIN with an absurd value count: make([]field.Value, n) with n taken from the command
func TestVerifReplayWhereinHugeCount(t *testing.T) {
	mc, err := mockOpenServer(MockServerOptions{Silent: true})
	if err != nil {
		t.Fatal(err)
	}
	defer mc.Close()
	r := verifRaw(t, mc.port, "*6\r\n$4\r\nSCAN\r\n$1\r\nk\r\n$7\r\nWHEREIN\r\n$1\r\nf\r\n$20\r\n18446744073709551615\r\n$1\r\n1\r\n")
	if err := mc.DoExpect("PONG", "PING"); err != nil {
		t.Fatalf("FAILING-INPUT: server not alive after SCAN k WHEREIN f 18446744073709551615 1 (reply %q): %v", r, err)
	}
}
