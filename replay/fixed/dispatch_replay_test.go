package tests

// Regression replays for dispatcher findings (C03/C07/C15): injected with `go test -overlay`, never written into /repo.

import (
	"fmt"
	"net"
	"strings"
	"testing"
)

// F5: JDEL must be refused on a READONLY server, must be logged (survive a restart), i.e. is a write command.
func TestVerifReplayJdelIsAWriteCommand(t *testing.T) {
	mc, err := mockOpenServer(MockServerOptions{Silent: true})
	if err != nil {
		t.Fatal(err)
	}
	defer mc.Close()
	must := func(expect interface{}, cmd string, args ...interface{}) {
		t.Helper()
		if err := mc.DoExpect(expect, cmd, args...); err != nil {
			t.Fatalf("%s %v: %v", cmd, args, err)
		}
	}
	must("OK", "JSET", "user", "1", "name", "Tom")
	must("OK", "JSET", "user", "1", "age", "30")
	must("OK", "READONLY", "yes")
	v, err := mc.Do("JDEL", "user", "1", "age")
	if err == nil && fmt.Sprint(v) == "1" {
		t.Errorf("FAILING-INPUT: JDEL was executed on a READONLY server (reply %v)", v)
	}
	must("OK", "READONLY", "no")
	must(1, "JDEL", "user", "1", "name")
	aof, _ := mc.readAOF()
	if !strings.Contains(strings.ToLower(string(aof)), "jdel") {
		t.Errorf("FAILING-INPUT: acknowledged JDEL is not in the append-only file")
	}
}

// F11: a follower that never caught up must not serve TEST GET (object read) or STATS, like GET/BOUNDS/SERVER.
func TestVerifReplayStaleFollowerRefusesTestAndStats(t *testing.T) {
	mc, err := mockOpenServer(MockServerOptions{Silent: true})
	if err != nil {
		t.Fatal(err)
	}
	defer mc.Close()
	if err := mc.DoExpect("OK", "SET", "fleet", "t1", "POINT", 33, -115); err != nil {
		t.Fatal(err)
	}
	// follow a fake leader that identifies itself and then never sends its log: a follower that never catches up
	ln, err := net.Listen("tcp", "127.0.0.1:0")
	if err != nil {
		t.Fatal(err)
	}
	defer ln.Close()
	go func() {
		for {
			c, err := ln.Accept()
			if err != nil {
				return
			}
			go func(c net.Conn) {
				defer c.Close()
				buf := make([]byte, 4096)
				first := true
				for {
					n, err := c.Read(buf)
					if err != nil {
						return
					}
					if first && strings.Contains(strings.ToLower(string(buf[:n])), "server") {
						first = false
						c.Write([]byte("*4\r\n$2\r\nid\r\n$6\r\nleader\r\n$8\r\naof_size\r\n$7\r\n1000000\r\n"))
					}
				}
			}(c)
		}
	}()
	port := ln.Addr().(*net.TCPAddr).Port
	if err := mc.DoExpect("OK", "FOLLOW", "127.0.0.1", port); err != nil {
		t.Fatal(err)
	}
	refused := func(cmd string, args ...interface{}) (bool, string) {
		v, err := mc.Do(cmd, args...)
		r := fmt.Sprintf("%v %v", v, err)
		return strings.Contains(r, "catching up"), r
	}
	if ok, r := refused("GET", "fleet", "t1"); !ok {
		t.Fatalf("setup: GET should be refused while catching up, got %s", r)
	}
	if ok, r := refused("TEST", "GET", "fleet", "t1", "INTERSECTS", "BOUNDS", 30, -120, 40, -110); !ok {
		t.Errorf("FAILING-INPUT: TEST GET served by a follower that never caught up (reply %s)", r)
	}
	if ok, r := refused("STATS", "fleet"); !ok {
		t.Errorf("FAILING-INPUT: STATS served by a follower that never caught up (reply %s)", r)
	}
}

// F15: FOLLOW with a wrong leaderauth must answer with an error and leave the server running
// (the error return did not re-acquire the server lock; the caller's deferred Unlock then faulted the process).
func TestVerifReplayFollowAuthFailureKeepsLock(t *testing.T) {
	leader, err := mockOpenServer(MockServerOptions{Silent: true})
	if err != nil {
		t.Fatal(err)
	}
	defer leader.Close()
	if err := leader.DoExpect("OK", "CONFIG", "SET", "requirepass", "secret"); err != nil {
		t.Fatal(err)
	}
	fol, err := mockOpenServer(MockServerOptions{Silent: true})
	if err != nil {
		t.Fatal(err)
	}
	defer fol.Close()
	if err := fol.DoExpect("OK", "CONFIG", "SET", "leaderauth", "wrong"); err != nil {
		t.Fatal(err)
	}
	v, err := fol.Do("FOLLOW", "localhost", leader.port)
	if !strings.Contains(fmt.Sprintf("%v %v", v, err), "cannot follow") {
		t.Errorf("FAILING-INPUT: FOLLOW with wrong leaderauth: reply %v err %v", v, err)
	}
	if err := fol.DoExpect("PONG", "PING"); err != nil {
		t.Errorf("FAILING-INPUT: server not alive after failed FOLLOW: %v", err)
	}
	if err := fol.DoExpect("OK", "SET", "k", "1", "POINT", 1, 1); err != nil {
		t.Errorf("FAILING-INPUT: server lock broken after failed FOLLOW: %v", err)
	}
}
