package tests

// Regression replays for script findings (C18, C16).

import (
	"fmt"
	"strings"
	"testing"
)

// EVALRO must never modify data, even if the script assigns the EVAL_CMD global the dispatcher trusted.
func TestVerifReplayEvalroCannotWrite(t *testing.T) {
	mc, err := mockOpenServer(MockServerOptions{Silent: true})
	if err != nil {
		t.Fatal(err)
	}
	defer mc.Close()
	v, err := mc.Do("EVALRO", "EVAL_CMD = 'eval' return tile38.call('set','k','i','point',1,1)", 0)
	g, _ := mc.Do("GET", "k", "i")
	if g != nil {
		t.Fatalf("FAILING-INPUT: EVALRO script modified data by overwriting EVAL_CMD (reply %v %v, GET k i = %v)", v, err, g)
	}
}

// F9: a failed EVALSHA must not leave KEYS/ARGV/EVAL_CMD in the pooled interpreter.
func TestVerifReplayFailedEvalshaLeavesNoGlobals(t *testing.T) {
	mc, err := mockOpenServer(MockServerOptions{Silent: true})
	if err != nil {
		t.Fatal(err)
	}
	defer mc.Close()
	mc.Do("SET", "k", "i", "FIELD", "f", 1, "POINT", 1, 1)
	for i := 0; i < 8; i++ { // touch every pooled interpreter
		mc.Do("EVALSHA", "0000000000000000000000000000000000000000", 1, "leaked-key", "leaked-arg")
	}
	v, err := mc.Do("SCAN", "k", "WHEREEVAL", "return KEYS ~= nil or EVAL_CMD ~= nil", 0, "COUNT")
	s := fmt.Sprintf("%v", v)
	if err == nil && strings.TrimSpace(s) != "0" {
		t.Fatalf("FAILING-INPUT: globals of a failed EVALSHA are visible to a later WHEREEVAL script: matched %s object(s)", s)
	}
}

// EVAL with an absurd number of keys must not crash the server.
func TestVerifReplayEvalHugeNumkeys(t *testing.T) {
	mc, err := mockOpenServer(MockServerOptions{Silent: true})
	if err != nil {
		t.Fatal(err)
	}
	defer mc.Close()
	verifRaw(t, mc.port, "*3\r\n$4\r\nEVAL\r\n$8\r\nreturn 1\r\n$20\r\n18446744073709551615\r\n")
	if err := mc.DoExpect("PONG", "PING"); err != nil {
		t.Fatalf("FAILING-INPUT: server not alive after EVAL 'return 1' 18446744073709551615: %v", err)
	}
}
