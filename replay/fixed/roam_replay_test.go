package tests

// Regression replay for F3 (C20): a roaming fence must not report a neighbour farther away than the radius.
// A neighbour in the corner of the search rectangle (inside the bounding box of the circle, outside the circle)
// was reported because the radius test used the neighbour's distance to itself.

import (
	"fmt"
	"strings"
	"testing"
	"time"

	"github.com/gomodule/redigo/redis"
	"github.com/tidwall/gjson"
)

func TestVerifReplayRoamRadius(t *testing.T) {
	mc, err := mockOpenServer(MockServerOptions{Silent: true})
	if err != nil {
		t.Fatal(err)
	}
	defer mc.Close()
	sc, err := redis.Dial("tcp", fmt.Sprintf(":%d", mc.port), redis.DialReadTimeout(2*time.Second))
	if err != nil {
		t.Fatal(err)
	}
	defer sc.Close()
	// neighbour: about 950 m east and 950 m north of the mover: inside the 1000 m bounding square, 1343 m away
	if err := mc.DoExpect("OK", "SET", "cars", "corner", "POINT", 33.00854, -114.98983); err != nil {
		t.Fatal(err)
	}
	if reply, err := redis.String(sc.Do("NEARBY", "cars", "FENCE", "ROAM", "cars", "*", 1000)); err != nil || reply != "OK" {
		t.Fatalf("fence: %v %v", reply, err)
	}
	if err := mc.DoExpect("OK", "SET", "cars", "mover", "POINT", 33.0, -115.0); err != nil {
		t.Fatal(err)
	}
	for i := 0; i < 3; i++ {
		reply, err := redis.String(sc.Receive())
		if err != nil {
			break // no more messages: nothing reported
		}
		if n := gjson.Get(reply, "nearby"); n.Exists() {
			m := n.Get("meters").Float()
			if m > 1000 {
				t.Fatalf("FAILING-INPUT: ROAM radius 1000 m reported neighbour %s at %.1f m: %s", n.Get("id"), m, strings.TrimSpace(reply))
			}
		}
	}
}
