package glob

// Regression replay for fixed findings F1a/F1b (C12): every name matching the pattern lies inside Parse's limits.
// Injected with `go test -overlay`; never written into /repo.

import "testing"

func verifInLimits(g *Glob, desc bool, s string) bool {
	lo, hi := g.Limits[0], g.Limits[1]
	if lo == "" && hi == "" {
		return true
	}
	if !desc {
		return lo <= s && s < hi
	}
	return s <= lo && hi < s
}

func TestVerifReplayGlobLimits(t *testing.T) {
	cases := []struct{ pattern, s string }{
		{"?bc", "abc"}, {"[a-c]x", "bx"}, {"?", "z"}, // F1a: metacharacter first
		{`a\*b*`, "a*bc"}, {`\[x\]*`, "[x]y"}, {`ab\?`, "ab?"}, // F1b: escape inside the literal prefix
		{"hello*", "hello world"}, {"a?c", "abc"},
	}
	for _, c := range cases {
		ok, err := Match(c.pattern, c.s)
		if err != nil || !ok {
			t.Fatalf("setup: %q should match %q", c.pattern, c.s)
		}
		for _, desc := range []bool{false, true} {
			g := Parse(c.pattern, desc)
			if !verifInLimits(g, desc, c.s) {
				t.Errorf("pattern %q desc=%v: %q matches but is outside limits %q", c.pattern, desc, c.s, g.Limits)
			}
		}
	}
}
