package glob

// Concretiser for failed glob obligations (C12): guided search on the REAL Parse/Match for a pattern and a
// name that matches it but lies outside the limits (or for a panic). Injected with go test -overlay.

import (
	"fmt"
	"math/rand"
	"os"
	"strconv"
	"strings"
	"testing"
)

func verifLitpre(p string) int {
	for i := 0; i < len(p); i++ {
		switch p[i] {
		case '*', '?', '[', '\\':
			return i
		}
	}
	return len(p)
}

func verifInLimits(g *Glob, desc bool, s string) bool {
	lo, hi := g.Limits[0], g.Limits[1]
	if lo == "" && hi == "" {
		return true
	}
	if !desc {
		return lo <= s && s < hi
	}
	return s <= lo && hi < s
}

func TestVerifConcretiseGlob(t *testing.T) {
	seed, _ := strconv.ParseInt(os.Getenv("VERIF_SEED"), 10, 64)
	class := os.Getenv("VERIF_CLASS") // e.g. prefix=asc.ends-ff ; empty = any
	rng := rand.New(rand.NewSource(seed))
	alpha := []byte{'a', 'b', 'z', '*', '?', '[', ']', '\\', '-', '^', 0x00, 0x01, 0xfe, 0xff}
	lits := []byte{'a', 'b', 'z', '*', '?', '[', ']', '\\', '-', 0x00, 0x01, 0xfe, 0xff}
	tried := 0
	check := func(p, s string) {
		defer func() {
			if r := recover(); r != nil {
				fmt.Printf("FAILING-INPUT panic pattern=%q name=%q: %v\n", p, s, r)
				t.FailNow()
			}
		}()
		ok, err := Match(p, s)
		if err != nil || !ok {
			return
		}
		for _, desc := range []bool{false, true} {
			n := verifLitpre(p)
			ff := n > 0 && p[n-1] == 0xff
			c := "prefix="
			if desc {
				c += "desc."
			} else {
				c += "asc."
			}
			if ff {
				c += "ends-ff"
			} else {
				c += "other"
			}
			if class != "" && !strings.Contains(class, c) {
				continue
			}
			tried++
			g := Parse(p, desc)
			if !verifInLimits(g, desc, s) {
				fmt.Printf("FAILING-INPUT pattern=%q desc=%v name=%q matches but limits=%q exclude it (class %s)\n", p, desc, s, g.Limits, c)
				t.FailNow()
			}
		}
	}
	// exhaustive small part, then random longer ones
	var gen func(prefix []byte, n int, f func([]byte))
	gen = func(prefix []byte, n int, f func([]byte)) {
		f(prefix)
		if n == 0 {
			return
		}
		for _, c := range alpha {
			gen(append(append([]byte(nil), prefix...), c), n-1, f)
		}
	}
	gen(nil, 3, func(p []byte) {
		if len(p) == 0 {
			return
		}
		// names: derived from the pattern by substituting metas, plus suffixes
		base := []string{}
		var b []byte
		for i := 0; i < len(p); i++ {
			switch p[i] {
			case '*':
			case '?':
				b = append(b, 'q')
			case '\\':
				if i+1 < len(p) {
					i++
					b = append(b, p[i])
				}
			default:
				b = append(b, p[i])
			}
		}
		base = append(base, string(b))
		for _, l := range lits {
			base = append(base, string(b)+string([]byte{l}), string(b)+string([]byte{0x00, l}))
		}
		for _, s := range base {
			check(string(p), s)
		}
	})
	for i := 0; i < 200000; i++ {
		pl := 1 + rng.Intn(5)
		p := make([]byte, pl)
		for j := range p {
			p[j] = alpha[rng.Intn(len(alpha))]
		}
		sl := rng.Intn(6)
		s := make([]byte, sl)
		for j := range s {
			s[j] = lits[rng.Intn(len(lits))]
		}
		check(string(p), string(s))
	}
	fmt.Printf("no failing input among %d matching (pattern,name,direction) triples\n", tried)
}
