package tests

// Replay family "follow_resume" (property C06): concrete leader/follower pairs for the obligations of
// Server.followCheckSome and Server.reset. Each scenario seeds both servers with crafted append-only files,
// issues FOLLOW, waits until the follower reports caught_up and then compares the two datasets.
// Injected with `go test -overlay`; never written into the repository.

import (
	"bytes"
	"fmt"
	"os"
	"sort"
	"strings"
	"testing"
	"time"

	"github.com/gomodule/redigo/redis"
)

func vfCmd(b *bytes.Buffer, args ...string) {
	fmt.Fprintf(b, "*%d\r\n", len(args))
	for _, a := range args {
		fmt.Fprintf(b, "$%d\r\n%s\r\n", len(a), a)
	}
}

const vfWindow = 512 * 1024

// vfCommon builds a log of SETs; when exact is true its length is exactly one checksum window and ends on a
// command boundary, otherwise the window boundary falls inside the last command.
func vfCommon(exact bool) []byte {
	var b bytes.Buffer
	for i := 0; ; i++ {
		var c bytes.Buffer
		vfCmd(&c, "SET", "fleet", fmt.Sprintf("truck%06d", i), "POINT", "33", "-115")
		if b.Len()+c.Len() > vfWindow-200 {
			break
		}
		b.Write(c.Bytes())
	}
	if exact {
		// pad: "*5 SET pad p STRING <n bytes>"
		for n := 1; n < 400; n++ {
			var c bytes.Buffer
			vfCmd(&c, "SET", "pad", "p", "STRING", strings.Repeat("x", n))
			if b.Len()+c.Len() == vfWindow {
				b.Write(c.Bytes())
				return b.Bytes()
			}
		}
		panic("no padding length fits")
	}
	var c bytes.Buffer
	vfCmd(&c, "SET", "pad", "p", "STRING", strings.Repeat("y", 400))
	b.Write(c.Bytes())
	return b.Bytes()
}

func vfBig(key string, n int) []byte {
	var b bytes.Buffer
	for i := 0; b.Len() < n; i++ {
		vfCmd(&b, "SET", key, fmt.Sprintf("id%06d", i), "POINT", "12", "13")
	}
	return b.Bytes()
}

func vfStrings(v interface{}, err error) []string {
	vals, err := redis.Values(v, err)
	if err != nil {
		return []string{"ERR:" + err.Error()}
	}
	var out []string
	for _, x := range vals {
		switch y := x.(type) {
		case []byte:
			out = append(out, string(y))
		case []interface{}:
			if len(y) > 0 {
				if nb, ok := y[0].([]byte); ok {
					out = append(out, string(nb))
				}
			}
		}
	}
	sort.Strings(out)
	return out
}

func vfDataset(mc *mockServer) string {
	mc.Do("OUTPUT", "resp")
	keys := vfStrings(mc.Do("KEYS", "*"))
	chans := vfStrings(mc.Do("CHANS", "*"))
	hooks := vfStrings(mc.Do("HOOKS", "*"))
	var counts []string
	for _, k := range keys {
		st, _ := redis.Values(mc.Do("STATS", k))
		n := ""
		if len(st) == 1 {
			if kv, ok := st[0].([]interface{}); ok {
				for i := 0; i+1 < len(kv); i += 2 {
					if string(kv[i].([]byte)) == "num_objects" {
						n = fmt.Sprint(kv[i+1])
					}
				}
			}
		}
		counts = append(counts, k+"="+n)
	}
	return fmt.Sprintf("keys=%v chans=%v hooks=%v", counts, chans, hooks)
}

func vfServerField(mc *mockServer, name string) string {
	mc.Do("OUTPUT", "resp")
	vals, err := redis.Values(mc.Do("SERVER"))
	if err != nil {
		return "ERR " + err.Error()
	}
	for i := 0; i+1 < len(vals); i += 2 {
		if string(vals[i].([]byte)) == name {
			switch v := vals[i+1].(type) {
			case []byte:
				return string(v)
			default:
				return fmt.Sprint(v)
			}
		}
	}
	return ""
}

type vfScenario struct {
	name             string
	leader, follower []byte
}

func vfScenarios() []vfScenario {
	var newData, oldSmall, chanCmd, other bytes.Buffer
	vfCmd(&newData, "SET", "new", "k", "POINT", "2", "2")
	vfCmd(&oldSmall, "SET", "old", "k1", "POINT", "1", "1")
	vfCmd(&other, "SET", "stale", "k1", "POINT", "1", "1")
	vfCmd(&chanCmd, "SETCHAN", "stalechan", "NEARBY", "fleet", "FENCE", "POINT", "33", "-115", "1000")
	exact, ragged := vfCommon(true), vfCommon(false)
	cat := func(a ...[]byte) []byte { return bytes.Join(a, nil) }
	return []vfScenario{
		// followCheckSome returns (0, nil) because the local log is smaller than one window: nothing is cleared
		{"small", newData.Bytes(), oldSmall.Bytes()},
		// first window differs: the file is recreated but the size counter and the dataset stay
		{"pos0", vfBig("lead", vfWindow+50000), vfBig("stale", vfWindow+50000)},
		// first window equal, the rest differs and the window boundary is a command boundary: "fully intact"
		{"intact", cat(exact, newData.Bytes()), cat(exact, other.Bytes())},
		// truncate + reset + reload: reset() keeps channels/hooks that are no longer in the log
		{"hooks", cat(ragged, newData.Bytes()), cat(ragged, chanCmd.Bytes())},
	}
}

func TestVerifFollowResume(t *testing.T) {
	mockCleanup(true)
	defer mockCleanup(true)
	only := os.Getenv("VERIF_SCENARIO")
	bad := 0
	for _, sc := range vfScenarios() {
		if only != "" && only != sc.name {
			continue
		}
		leader, err := mockOpenServer(MockServerOptions{Silent: true, AOFData: sc.leader})
		if err != nil {
			t.Fatal(err)
		}
		follower, err := mockOpenServer(MockServerOptions{Silent: true, AOFData: sc.follower})
		if err != nil {
			leader.Close()
			t.Fatal(err)
		}
		if _, err := follower.Do("FOLLOW", "localhost", leader.port); err != nil {
			t.Fatal(err)
		}
		caught := false
		for i := 0; i < 100; i++ {
			time.Sleep(100 * time.Millisecond)
			if vfServerField(follower, "caught_up") == "true" || vfServerField(follower, "caught_up") == "1" {
				caught = true
				break
			}
		}
		time.Sleep(300 * time.Millisecond)
		ld, fd := vfDataset(leader), vfDataset(follower)
		la, fa := vfServerField(leader, "aof_size"), vfServerField(follower, "aof_size")
		if !caught {
			fmt.Printf("scenario %s: follower never reported caught_up within 10 s (leader aof_size %s follower %s)\n", sc.name, la, fa)
		} else if ld != fd || la != fa {
			bad++
			fmt.Printf("FAILING-INPUT scenario=%s: follower reports caught_up but differs from the quiescent leader\n  leader   aof_size=%s %s\n  follower aof_size=%s %s\n", sc.name, la, ld, fa, fd)
		} else {
			fmt.Printf("scenario %s: ok (aof_size %s, %s)\n", sc.name, la, ld)
		}
		follower.Close()
		leader.Close()
	}
	if bad > 0 {
		t.Fatalf("%d scenario(s) diverge", bad)
	}
}
