package collection

// Concretiser for the float32 rounding obligations (C02): evaluates the contract on the REAL rtreeValueDown/Up
// for the double the solver produced (VERIF_D_BITS) and for a guided search around float32 tie points.

import (
	"fmt"
	"math"
	"math/rand"
	"os"
	"strconv"
	"testing"
)

func verifRoundingBad(d float64) string {
	if math.IsNaN(d) {
		return ""
	}
	f := float64(float32(d))
	if dn := float64(rtreeValueDown(d)); !(dn <= f) {
		return fmt.Sprintf("rtreeValueDown(%v [bits %#x]) = %v > float32(d) = %v", d, math.Float64bits(d), dn, f)
	}
	if up := float64(rtreeValueUp(d)); !(f <= up) {
		return fmt.Sprintf("rtreeValueUp(%v [bits %#x]) = %v < float32(d) = %v", d, math.Float64bits(d), up, f)
	}
	return ""
}

func TestVerifConcretiseRounding(t *testing.T) {
	if s := os.Getenv("VERIF_D_BITS"); s != "" {
		if b, err := strconv.ParseUint(s, 0, 64); err == nil {
			if msg := verifRoundingBad(math.Float64frombits(b)); msg != "" {
				fmt.Println("FAILING-INPUT (solver model)", msg)
				t.FailNow()
			}
		}
	}
	seed, _ := strconv.ParseInt(os.Getenv("VERIF_SEED"), 10, 64)
	rng := rand.New(rand.NewSource(seed))
	for i := 0; i < 2000000; i++ {
		// doubles close to float32 values, both signs, all magnitudes
		f := math.Float32frombits(rng.Uint32())
		d := float64(f)
		if math.IsNaN(d) || math.IsInf(d, 0) {
			continue
		}
		delta := math.Float64frombits(math.Float64bits(math.Abs(d)) + uint64(rng.Intn(1<<30)))
		for _, x := range []float64{d, math.Copysign(delta, d), -math.Copysign(delta, d), math.Nextafter(d, math.Inf(1)), math.Nextafter(d, math.Inf(-1))} {
			if msg := verifRoundingBad(x); msg != "" {
				fmt.Println("FAILING-INPUT", msg)
				t.FailNow()
			}
		}
	}
	fmt.Println("no failing input found")
}
