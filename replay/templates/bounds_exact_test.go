package collection

// Concretiser for Collection.Bounds (C19): BOUNDS against the box recomputed from the retrievable objects, for datasets
// whose coordinates differ only below float32 precision (so that they share a stored edge in the spatial index), in
// every insertion order, plus random clustered datasets with deletes.

import (
	"fmt"
	"math/rand"
	"os"
	"strconv"
	"testing"

	"github.com/tidwall/geojson"
	"github.com/tidwall/geojson/geometry"
	"github.com/tidwall/tile38/internal/field"
	"github.com/tidwall/tile38/internal/object"
)

func verifBoundsBad(c *Collection, live map[string]geometry.Rect) string {
	if len(live) == 0 {
		return ""
	}
	first := true
	var want geometry.Rect
	for _, r := range live {
		if first {
			want, first = r, false
			continue
		}
		if r.Min.X < want.Min.X {
			want.Min.X = r.Min.X
		}
		if r.Min.Y < want.Min.Y {
			want.Min.Y = r.Min.Y
		}
		if r.Max.X > want.Max.X {
			want.Max.X = r.Max.X
		}
		if r.Max.Y > want.Max.Y {
			want.Max.Y = r.Max.Y
		}
	}
	minX, minY, maxX, maxY := c.Bounds()
	if minX != want.Min.X || minY != want.Min.Y || maxX != want.Max.X || maxY != want.Max.Y {
		return fmt.Sprintf("Bounds() = [%.12g %.12g %.12g %.12g], recomputed from the %d objects = [%.12g %.12g %.12g %.12g]",
			minX, minY, maxX, maxY, len(live), want.Min.X, want.Min.Y, want.Max.X, want.Max.Y)
	}
	return ""
}

func TestVerifConcretiseBounds(t *testing.T) {
	// two points whose longitudes round to the same float32, both insertion orders
	for _, order := range [][2]float64{{1.00000001, 1.00000002}, {1.00000002, 1.00000001}} {
		c := New()
		live := map[string]geometry.Rect{}
		for i, x := range order {
			id := string(rune('a' + i))
			p := geojson.NewPoint(geometry.Point{X: x, Y: 5})
			c.Set(object.New(id, p, 0, field.List{}))
			live[id] = p.Rect()
		}
		if msg := verifBoundsBad(c, live); msg != "" {
			fmt.Printf("FAILING-INPUT SET k a POINT 5 %v ; SET k b POINT 5 %v ; BOUNDS k: %s\n", order[0], order[1], msg)
			t.FailNow()
		}
	}
	seed, _ := strconv.ParseInt(os.Getenv("VERIF_SEED"), 10, 64)
	rng := rand.New(rand.NewSource(seed))
	for round := 0; round < 300; round++ {
		c := New()
		live := map[string]geometry.Rect{}
		cx, cy := rng.Float64()*300-150, rng.Float64()*160-80
		for step := 0; step < 40; step++ {
			id := strconv.Itoa(rng.Intn(12))
			if rng.Intn(4) == 0 {
				c.Delete(id)
				delete(live, id)
			} else {
				x := cx + float64(rng.Intn(5))*1e-9
				y := cy + float64(rng.Intn(5))*1e-9
				var g geojson.Object
				if rng.Intn(2) == 0 {
					g = geojson.NewPoint(geometry.Point{X: x, Y: y})
				} else {
					g = geojson.NewRect(geometry.Rect{Min: geometry.Point{X: x, Y: y}, Max: geometry.Point{X: x + float64(rng.Intn(3))*1e-9, Y: y + float64(rng.Intn(3))*1e-9}})
				}
				c.Set(object.New(id, g, 0, field.List{}))
				live[id] = g.Rect()
			}
			if msg := verifBoundsBad(c, live); msg != "" {
				fmt.Printf("FAILING-INPUT random dataset (seed %d round %d step %d): %s\n", seed, round, step, msg)
				t.FailNow()
			}
		}
	}
}
