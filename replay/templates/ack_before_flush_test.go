package tests

// Replay family "ack_before_flush" (property C08): many connections issue SETs one at a time against a real server;
// as soon as a connection has read its +OK it looks for its own command in the append-only file. An acknowledged command
// that is not in the file yet is a write that a crash at that instant loses. Injected with `go test -overlay`.

import (
	"bufio"
	"bytes"
	"fmt"
	"net"
	"os"
	"path/filepath"
	"strconv"
	"sync"
	"sync/atomic"
	"testing"
	"time"
)

func TestVerifAckBeforeFlush(t *testing.T) {
	mockCleanup(true)
	defer mockCleanup(true)
	mc, err := mockOpenServer(MockServerOptions{Silent: true})
	if err != nil {
		t.Fatal(err)
	}
	defer mc.Close()
	secs := 8.0
	if v, err := strconv.ParseFloat(os.Getenv("VERIF_SECONDS"), 64); err == nil {
		secs = v
	}
	nconn := 64
	aof := filepath.Join(mc.dir, "appendonly.aof")
	stop := time.Now().Add(time.Duration(secs * float64(time.Second)))
	var total, missing atomic.Int64
	var first atomic.Value
	var wg sync.WaitGroup
	for c := 0; c < nconn; c++ {
		wg.Add(1)
		go func(c int) {
			defer wg.Done()
			conn, err := net.Dial("tcp", fmt.Sprintf("127.0.0.1:%d", mc.port))
			if err != nil {
				return
			}
			defer conn.Close()
			rd := bufio.NewReader(conn)
			f, err := os.Open(aof)
			if err != nil {
				return
			}
			defer f.Close()
			var seen []byte
			chunk := make([]byte, 1<<20)
			for i := 0; time.Now().Before(stop); i++ {
				id := fmt.Sprintf("w%d-%d", c, i)
				fmt.Fprintf(conn, "*6\r\n$3\r\nSET\r\n$1\r\nk\r\n$%d\r\n%s\r\n$5\r\nPOINT\r\n$1\r\n1\r\n$1\r\n2\r\n", len(id), id)
				line, err := rd.ReadString('\n')
				if err != nil {
					return
				}
				if line != "+OK\r\n" {
					continue
				}
				// acknowledged: the command must already have been handed to the file
				if len(seen) > 256 {
					seen = seen[len(seen)-256:]
				}
				for {
					n, _ := f.Read(chunk)
					if n == 0 {
						break
					}
					seen = append(seen, chunk[:n]...)
				}
				total.Add(1)
				if !bytes.Contains(seen, []byte(id+"\r\n")) {
					missing.Add(1)
					first.CompareAndSwap(nil, id)
				}
			}
		}(c)
	}
	wg.Wait()
	fmt.Printf("%d connections, %d acknowledged SETs, %d acknowledged before their bytes were in the file\n", nconn, total.Load(), missing.Load())
	if missing.Load() > 0 {
		fmt.Printf("FAILING-INPUT: e.g. id %v was acknowledged while its command was still only in the server's write buffer\n", first.Load())
		t.Fail()
	}
}

// A SET pipelined in front of a command that turns the connection into a live geofence stream: its +OK is written when
// the connection is detached.
func TestVerifAckBeforeFlushGoingLive(t *testing.T) {
	mockCleanup(true)
	defer mockCleanup(true)
	mc, err := mockOpenServer(MockServerOptions{Silent: true})
	if err != nil {
		t.Fatal(err)
	}
	defer mc.Close()
	aof := filepath.Join(mc.dir, "appendonly.aof")
	bad := 0
	for i := 0; i < 5; i++ {
		time.Sleep(1200 * time.Millisecond) // let the background flush empty the buffer
		conn, err := net.Dial("tcp", fmt.Sprintf("127.0.0.1:%d", mc.port))
		if err != nil {
			t.Fatal(err)
		}
		id := fmt.Sprintf("live-%d", i)
		fmt.Fprintf(conn, "*6\r\n$3\r\nSET\r\n$1\r\nk\r\n$%d\r\n%s\r\n$5\r\nPOINT\r\n$1\r\n1\r\n$1\r\n2\r\n"+
			"*7\r\n$6\r\nNEARBY\r\n$1\r\nk\r\n$5\r\nFENCE\r\n$5\r\nPOINT\r\n$1\r\n1\r\n$1\r\n2\r\n$3\r\n100\r\n", len(id), id)
		rd := bufio.NewReader(conn)
		line, err := rd.ReadString('\n')
		if err != nil || line != "+OK\r\n" {
			t.Fatalf("unexpected reply %q %v", line, err)
		}
		data, _ := os.ReadFile(aof)
		if !bytes.Contains(data, []byte(id+"\r\n")) {
			bad++
			fmt.Printf("FAILING-INPUT: SET k %s pipelined before NEARBY ... FENCE: +OK received, command not in the file\n", id)
		}
		conn.Close()
	}
	if bad > 0 {
		t.Fail()
	}
}
