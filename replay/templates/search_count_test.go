package tests

// Replay family "search_count" (property C12): COUNT must equal the number of items the same query returns as IDS.
import (
	"fmt"
	"testing"

	"github.com/gomodule/redigo/redis"
)

func TestVerifSearchCount(t *testing.T) {
	mockCleanup(true)
	defer mockCleanup(true)
	mc, err := mockOpenServer(MockServerOptions{Silent: true})
	if err != nil {
		t.Fatal(err)
	}
	defer mc.Close()
	mc.Do("SET", "k", "s1", "FIELD", "a", "1", "STRING", "apple")
	mc.Do("SET", "k", "s2", "FIELD", "a", "2", "STRING", "banana")
	mc.Do("SET", "k", "p1", "POINT", "33", "-115")
	bad := 0
	for _, q := range [][]interface{}{
		{"k"},
		{"k", "WHEREIN", "a", "1", "1"},
	} {
		cnt, err1 := redis.Int(mc.Do("SEARCH", append(append([]interface{}{}, q...), "COUNT")...))
		ids, err2 := redis.Values(mc.Do("SEARCH", append(append([]interface{}{}, q...), "IDS")...))
		n := -1
		if err2 == nil && len(ids) == 2 {
			if l, ok := ids[1].([]interface{}); ok {
				n = len(l)
			}
		}
		if err1 != nil || err2 != nil || cnt != n {
			bad++
			fmt.Printf("FAILING-INPUT: SEARCH %v COUNT = %d but SEARCH %v IDS returns %d ids (%v %v)\n", q, cnt, q, n, err1, err2)
		} else {
			fmt.Printf("SEARCH %v: COUNT = IDS = %d\n", q, n)
		}
	}
	if bad > 0 {
		t.Fail()
	}
}
