package tests

// Replay family "json_reply" (property C17): replies in JSON mode must be valid JSON documents with a boolean "ok".
import (
	"encoding/json"
	"fmt"
	"testing"

	"github.com/gomodule/redigo/redis"
)

func TestVerifJSONReply(t *testing.T) {
	mockCleanup(true)
	defer mockCleanup(true)
	mc, err := mockOpenServer(MockServerOptions{Silent: true})
	if err != nil {
		t.Fatal(err)
	}
	defer mc.Close()
	mc.Do("SET", "k", "a", "POINT", "1", "2")
	if _, err := mc.Do("OUTPUT", "json"); err != nil {
		t.Fatal(err)
	}
	bad := 0
	for _, cmd := range [][]interface{}{
		{"OUTPUT"}, {"OUTPUT", "json"}, {"DEL", "k", "zz"}, {"RENAME", "k", "k2"}, {"DROP", "nokey"}, {"TTL", "k2", "a"}, {"EXISTS", "k2", "a"}, {"TYPE", "k2"},
	} {
		s, err := redis.String(mc.Do(cmd[0].(string), cmd[1:]...))
		if err != nil {
			s = err.Error()
		}
		var doc map[string]interface{}
		ok := json.Unmarshal([]byte(s), &doc) == nil
		if ok {
			_, ok = doc["ok"].(bool)
		}
		if !ok {
			bad++
			fmt.Printf("FAILING-INPUT: %v in JSON mode answers %s - not a JSON document with a boolean \"ok\"\n", cmd, s)
		} else {
			fmt.Printf("%v: ok\n", cmd)
		}
	}
	if bad > 0 {
		t.Fail()
	}
}
